// mv_codec is the harness binary of the "codec" family (C27, C28, C29).
//
// It only executes: typed columns are built from little-endian bytes with
// encoding/binary (not with the repository's own unsafe casts), the real
// functions are called, and everything observable is rendered back to bytes.
//
//	c29_rows   ColumnSeries -> SerializeColumnsToRows / ToRowSeries -> NewRowSeries -> GetColumn / ToColumnSeries
//	c27_numpy  ColumnSeries* -> NewNumpyDataset / NewNumpyMultiDataset / Append -> msgpack (plain and through the
//	           real RPC server + client codecs) -> ToColumnSeriesMap (utils/io/numpy.go and frontend/query.go)
//	c28_tg     DataService.Create / Writer.WriteCSM on a started instance, a capturing ReplicationSender receives
//	           the serialized transaction group, executor.ParseTGData decodes it
//	c28_dsv    io.DSVToBytes -> io.DSVFromBytes
package main

import (
	"bytes"
	"context"
	"encoding/binary"
	"encoding/hex"
	"encoding/json"
	"fmt"
	"math"
	"net/http"
	"net/http/httptest"
	"os"
	"reflect"
	"runtime/debug"
	"sync/atomic"
	"time"

	rpc "github.com/alpacahq/rpc/rpc2"
	"github.com/vmihailenco/msgpack"

	"github.com/alpacahq/marketstore/v4/executor"
	"github.com/alpacahq/marketstore/v4/frontend"
	"github.com/alpacahq/marketstore/v4/utils/io"
	"github.com/alpacahq/marketstore/v4/utils/rpc/msgpack2"

	"mktsverif/drv"
	"mktsverif/inst"
)

// ------------------------------------------------------------------------------------------
// columns
// ------------------------------------------------------------------------------------------

type xcol struct {
	Name string `json:"name"` // plain name, or
	NHex string `json:"nhex"` // name as hex bytes
	Type string `json:"type"`
	Hex  string `json:"hex"` // little-endian element bytes
}

func (c *xcol) name() string {
	if c.NHex != "" {
		b, _ := hex.DecodeString(c.NHex)
		return string(b)
	}
	return c.Name
}

var widths = map[string]int{"i1": 1, "u1": 1, "bool": 1, "i2": 2, "u2": 2, "i4": 4, "u4": 4, "f4": 4, "i8": 8, "u8": 8, "f8": 8, "U16": 64}

// buildCol makes the typed Go slice the repository uses for the element type.
func buildCol(typ string, b []byte) (interface{}, error) {
	w, ok := widths[typ]
	if !ok {
		return nil, fmt.Errorf("driver: unknown type %q", typ)
	}
	if len(b)%w != 0 {
		return nil, fmt.Errorf("driver: %d bytes is not a multiple of %d", len(b), w)
	}
	n := len(b) / w
	le := binary.LittleEndian
	switch typ {
	case "i1":
		out := make([]int8, n)
		for i := range out {
			out[i] = int8(b[i])
		}
		return out, nil
	case "u1":
		out := make([]uint8, n)
		copy(out, b)
		return out, nil
	case "bool":
		out := make([]bool, n)
		for i := range out {
			out[i] = b[i] != 0
		}
		return out, nil
	case "i2":
		out := make([]int16, n)
		for i := range out {
			out[i] = int16(le.Uint16(b[2*i:]))
		}
		return out, nil
	case "u2":
		out := make([]uint16, n)
		for i := range out {
			out[i] = le.Uint16(b[2*i:])
		}
		return out, nil
	case "i4":
		out := make([]int32, n)
		for i := range out {
			out[i] = int32(le.Uint32(b[4*i:]))
		}
		return out, nil
	case "u4":
		out := make([]uint32, n)
		for i := range out {
			out[i] = le.Uint32(b[4*i:])
		}
		return out, nil
	case "f4":
		out := make([]float32, n)
		for i := range out {
			out[i] = math.Float32frombits(le.Uint32(b[4*i:]))
		}
		return out, nil
	case "i8":
		out := make([]int64, n)
		for i := range out {
			out[i] = int64(le.Uint64(b[8*i:]))
		}
		return out, nil
	case "u8":
		out := make([]uint64, n)
		for i := range out {
			out[i] = le.Uint64(b[8*i:])
		}
		return out, nil
	case "f8":
		out := make([]float64, n)
		for i := range out {
			out[i] = math.Float64frombits(le.Uint64(b[8*i:]))
		}
		return out, nil
	case "U16":
		out := make([][16]rune, n)
		for i := range out {
			for k := 0; k < 16; k++ {
				out[i][k] = rune(le.Uint32(b[64*i+4*k:]))
			}
		}
		return out, nil
	}
	return nil, fmt.Errorf("driver: unknown type %q", typ)
}

func buildCS(cols []xcol) (*io.ColumnSeries, error) {
	cs := io.NewColumnSeries()
	for i := range cols {
		b, err := hex.DecodeString(cols[i].Hex)
		if err != nil {
			return nil, err
		}
		col, err := buildCol(cols[i].Type, b)
		if err != nil {
			return nil, err
		}
		cs.AddColumn(cols[i].name(), col)
	}
	return cs, nil
}

// ocol is rendered as [name hex, Go type of the slice, element bytes hex]
type ocol struct {
	NHex   string
	GoType string
	Hex    string
}

func (o ocol) MarshalJSON() ([]byte, error) { return json.Marshal([3]string{o.NHex, o.GoType, o.Hex}) }

// renderCol turns any fixed-width slice back into little-endian bytes; float bits are kept exactly.
func renderCol(name string, col interface{}) ocol {
	o := ocol{NHex: hex.EncodeToString([]byte(name))}
	if col == nil {
		o.GoType = "nil"
		return o
	}
	o.GoType = fmt.Sprintf("%T", col)
	v := reflect.ValueOf(col)
	if v.Kind() != reflect.Slice {
		return o
	}
	var buf bytes.Buffer
	if err := binary.Write(&buf, binary.LittleEndian, col); err != nil {
		o.Hex = "!" + err.Error()
		return o
	}
	o.Hex = hex.EncodeToString(buf.Bytes())
	return o
}

func renderCS(cs *io.ColumnSeries) []ocol {
	if cs == nil {
		return nil
	}
	out := []ocol{}
	for _, name := range cs.GetColumnNames() {
		out = append(out, renderCol(name, cs.GetColumn(name)))
	}
	return out
}

func guard(f func() drv.Obs) (o drv.Obs) {
	defer func() {
		if r := recover(); r != nil {
			o = drv.Obs{"panic": fmt.Sprint(r), "stack": tail(string(debug.Stack()), 1500)}
		}
	}()
	return f()
}

func tail(s string, n int) string {
	if len(s) > n {
		return s[len(s)-n:]
	}
	return s
}

func bad(err error) drv.Obs { return drv.Obs{"err": err.Error(), "driver_error": true} }

// ------------------------------------------------------------------------------------------
// C29
// ------------------------------------------------------------------------------------------

type c29x struct {
	Cols  []xcol `json:"cols"`
	Align bool   `json:"align"`
	Via   string `json:"via"` // "func": SerializeColumnsToRows + NewRowSeries, "method": ColumnSeries.ToRowSeries
}

func shapesOut(dsv []io.DataShape) []map[string]interface{} {
	out := []map[string]interface{}{}
	for _, s := range dsv {
		out = append(out, map[string]interface{}{"nhex": hex.EncodeToString([]byte(s.Name)), "code": int(s.Type), "elem": s.Type.String()})
	}
	return out
}

func c29rows(_ *drv.Ctx, o *drv.Op) drv.Obs {
	var x c29x
	if err := json.Unmarshal(o.X, &x); err != nil {
		return bad(err)
	}
	cs, err := buildCS(x.Cols)
	if err != nil {
		return bad(err)
	}
	key := *io.NewTimeBucketKey("SYM/1Min/AG")
	obs := drv.Obs{}
	var rs *io.RowSeries
	ser := guard(func() drv.Obs {
		if x.Via == "method" {
			r, err := cs.ToRowSeries(key, x.Align)
			if err != nil {
				return drv.Obs{"err": err.Error()}
			}
			rs = r
			return drv.Obs{"err": nil, "data": hex.EncodeToString(r.GetData()), "reclen": r.GetRowLen(), "shapes": shapesOut(r.GetDataShapes())}
		}
		dsv := cs.GetDataShapes()
		data, recLen, err := io.SerializeColumnsToRows(cs, dsv, x.Align)
		if err != nil {
			return drv.Obs{"err": err.Error()}
		}
		rs = io.NewRowSeries(key, data, dsv, recLen, io.NOTYPE)
		return drv.Obs{"err": nil, "data": hex.EncodeToString(data), "reclen": recLen, "shapes": shapesOut(dsv)}
	})
	obs["ser"] = ser
	if rs == nil {
		return obs
	}
	obs["numrows"] = guard(func() drv.Obs { return drv.Obs{"n": rs.GetNumRows(), "rowlen": rs.GetRowLen()} })
	obs["getcolumn"] = guard(func() drv.Obs {
		out := []ocol{}
		for _, s := range rs.GetDataShapes() {
			out = append(out, renderCol(s.Name, rs.GetColumn(s.Name)))
		}
		return drv.Obs{"cols": out}
	})
	obs["tocs"] = guard(func() drv.Obs {
		_, back := rs.ToColumnSeries()
		return drv.Obs{"cols": renderCS(back)}
	})
	obs["rows_tocs"] = guard(func() drv.Obs {
		rows := io.NewRows(rs.GetDataShapes(), rs.GetData())
		rows.SetRowLen(rs.GetRowLen())
		back, err := rows.ToColumnSeries()
		if err != nil {
			return drv.Obs{"err": err.Error()}
		}
		return drv.Obs{"cols": renderCS(back)}
	})
	return obs
}

// ------------------------------------------------------------------------------------------
// C27
// ------------------------------------------------------------------------------------------

type xbucket struct {
	Key  string `json:"key"`
	Cols []xcol `json:"cols"`
}

type c27x struct {
	Buckets []xbucket `json:"buckets"`
}

func renderCSM(csm io.ColumnSeriesMap) map[string][]ocol {
	out := map[string][]ocol{}
	for k, cs := range csm {
		out[k.String()] = renderCS(cs)
	}
	return out
}

// EchoService is served by the repository's RPC server with its msgpack codec: the request is a real
// MultiWriteRequest (what DataService.Write receives), the reply a real MultiQueryResponse (what Query returns).
type EchoService struct {
	server drv.Obs
}

func (s *EchoService) Echo(_ *http.Request, req *frontend.MultiWriteRequest, resp *frontend.MultiQueryResponse) error {
	s.server = guard(func() drv.Obs {
		if len(req.Requests) != 1 || req.Requests[0].Data == nil {
			return drv.Obs{"err": "request lost its dataset"}
		}
		d := req.Requests[0].Data
		// exactly what DataService.Write does with the decoded request
		csm, err := d.ToColumnSeriesMap()
		if err != nil {
			return drv.Obs{"err": err.Error()}
		}
		return drv.Obs{"err": nil, "csm": renderCSM(csm)}
	})
	resp.Responses = append(resp.Responses, frontend.QueryResponse{Result: req.Requests[0].Data})
	resp.Version = "v"
	resp.Timezone = "UTC"
	return nil
}

func book(d *io.NumpyMultiDataset) drv.Obs {
	lens := []int{}
	for _, c := range d.ColumnData {
		lens = append(lens, len(c))
	}
	names := []string{}
	for _, n := range d.ColumnNames {
		names = append(names, hex.EncodeToString([]byte(n)))
	}
	return drv.Obs{"length": d.Length, "start": d.StartIndex, "lengths": d.Lengths, "types": d.ColumnTypes, "names": names, "colbytes": lens}
}

func c27numpy(_ *drv.Ctx, o *drv.Op) drv.Obs {
	var x c27x
	if err := json.Unmarshal(o.X, &x); err != nil {
		return bad(err)
	}
	if len(x.Buckets) == 0 {
		return bad(fmt.Errorf("no buckets"))
	}
	var css []*io.ColumnSeries
	for i := range x.Buckets {
		cs, err := buildCS(x.Buckets[i].Cols)
		if err != nil {
			return bad(err)
		}
		css = append(css, cs)
	}
	obs := drv.Obs{}
	var nmds *io.NumpyMultiDataset
	conv := guard(func() drv.Obs {
		nds, err := io.NewNumpyDataset(css[0])
		if err != nil {
			return drv.Obs{"err": err.Error(), "at": 0}
		}
		m, err := io.NewNumpyMultiDataset(nds, *io.NewTimeBucketKey(x.Buckets[0].Key))
		if err != nil {
			return drv.Obs{"err": err.Error(), "at": 0}
		}
		for i := 1; i < len(css); i++ {
			if err := m.Append(css[i], *io.NewTimeBucketKey(x.Buckets[i].Key)); err != nil {
				return drv.Obs{"err": err.Error(), "at": i}
			}
		}
		nmds = m
		return drv.Obs{"err": nil, "book": book(m)}
	})
	obs["conv"] = conv
	if nmds == nil {
		return obs
	}
	// (a) plain msgpack of the dataset, decoded by utils/io/numpy.go
	obs["plain"] = guard(func() drv.Obs {
		b, err := msgpack.Marshal(nmds)
		if err != nil {
			return drv.Obs{"err": "marshal: " + err.Error()}
		}
		var back io.NumpyMultiDataset
		if err := msgpack.Unmarshal(b, &back); err != nil {
			return drv.Obs{"err": "unmarshal: " + err.Error()}
		}
		csm, err := back.ToColumnSeriesMap()
		if err != nil {
			return drv.Obs{"err": err.Error()}
		}
		return drv.Obs{"err": nil, "csm": renderCSM(csm), "book": book(&back), "wire_bytes": len(b)}
	})
	// (b) the real RPC path: client request encoder -> server codec -> service -> server response
	//     encoder -> client response decoder -> MultiQueryResponse.ToColumnSeriesMap (frontend/query.go)
	svc := &EchoService{}
	var body []byte
	rp := guard(func() drv.Obs {
		srv := rpc.NewServer()
		srv.RegisterCodec(msgpack2.NewCodec(), "application/x-msgpack")
		if err := srv.RegisterService(svc, "DataService"); err != nil {
			return drv.Obs{"err": err.Error(), "driver_error": true}
		}
		args := &frontend.MultiWriteRequest{Requests: []frontend.WriteRequest{{Data: nmds, IsVariableLength: false}}}
		msg, err := msgpack2.EncodeClientRequest("DataService.Echo", args)
		if err != nil {
			return drv.Obs{"err": "encode request: " + err.Error()}
		}
		req := httptest.NewRequest("POST", "/rpc", bytes.NewReader(msg))
		req.Header.Set("Content-Type", "application/x-msgpack")
		rec := httptest.NewRecorder()
		srv.ServeHTTP(rec, req)
		body = rec.Body.Bytes()
		return drv.Obs{"err": nil, "status": rec.Code, "request_bytes": len(msg), "response_bytes": len(body)}
	})
	obs["rpc"] = rp
	obs["server"] = svc.server
	if body != nil {
		obs["client"] = guard(func() drv.Obs {
			result := &frontend.MultiQueryResponse{}
			if err := msgpack2.DecodeClientResponse(bytes.NewReader(body), result); err != nil {
				return drv.Obs{"err": "decode response: " + err.Error()}
			}
			csm, err := result.ToColumnSeriesMap()
			if err != nil {
				return drv.Obs{"err": err.Error()}
			}
			return drv.Obs{"err": nil, "csm": renderCSM(*csm)}
		})
	}
	return obs
}

// ------------------------------------------------------------------------------------------
// C28
// ------------------------------------------------------------------------------------------

type capture struct{ tgs [][]byte }

func (c *capture) Run(_ context.Context) {}
func (c *capture) Send(tg []byte) {
	cp := make([]byte, len(tg))
	copy(cp, tg)
	c.tgs = append(c.tgs, cp)
}

type c28bucket struct {
	Key    string   `json:"key"`    // SYM/TF/AG
	Create bool     `json:"create"` // explicit DataService.Create first (otherwise WriteCSM creates the bucket)
	Cols   []xcol   `json:"cols"`   // Epoch first; the written rows
	Times  []int64  `json:"times"`  // epoch seconds of the rows (to compute the reference index/offset)
	Names  []string `json:"-"`
}

type c28x struct {
	Root    string      `json:"root"`
	Var     bool        `json:"var"`
	Buckets []c28bucket `json:"buckets"`
	FullTG  bool        `json:"fulltg"`
}

func ensureStarted(c *drv.Ctx, root string) {
	if c.In != nil {
		return
	}
	// one root per driver process: a successor process must not replay this one's WAL at start-up
	c.In = inst.Start(fmt.Sprintf("%s.%d", root, os.Getpid()), inst.Opts{})
	atomic.StoreUint32(&frontend.Queryable, 1)
}

func c28tg(c *drv.Ctx, o *drv.Op) drv.Obs {
	var x c28x
	if err := json.Unmarshal(o.X, &x); err != nil {
		return bad(err)
	}
	ensureStarted(c, x.Root)
	obs := drv.Obs{}
	csm := io.NewColumnSeriesMap()
	for i := range x.Buckets {
		b := &x.Buckets[i]
		if b.Create {
			names, types := []string{}, []string{}
			for _, col := range b.Cols[1:] {
				if x.Var && col.name() == "Nanoseconds" {
					continue // the sub-second part of the row time, not a stored column
				}
				names = append(names, col.name())
				types = append(types, col.Type)
			}
			var r frontend.MultiServerResponse
			err := c.In.Data.Create(nil, &frontend.MultiCreateRequest{Requests: []frontend.CreateRequest{{
				Key: b.Key + ":Symbol/Timeframe/AttributeGroup", ColumnNames: names, ColumnTypes: types, IsVariableLength: x.Var}}}, &r)
			if err != nil {
				return drv.Obs{"create_err": err.Error()}
			}
			for _, rr := range r.Responses {
				if rr.Error != "" {
					return drv.Obs{"create_err": rr.Error}
				}
			}
		}
		cs, err := buildCS(b.Cols)
		if err != nil {
			return bad(err)
		}
		csm.AddColumnSeries(*io.NewTimeBucketKey(b.Key), cs)
	}
	// commands left queued by an earlier, rejected write must not end up in this case's group
	_ = c.In.WAL.FlushToWAL()
	cap := &capture{}
	prev := c.In.WAL.ReplicationSender
	c.In.WAL.ReplicationSender = cap
	defer func() { c.In.WAL.ReplicationSender = prev }()
	walName := c.In.WAL.FilePtr.Name()
	var before int64
	if st, err := os.Stat(walName); err == nil {
		before = st.Size()
	}
	w := guard(func() drv.Obs { return drv.Obs{"err": errS(c.In.Writer.WriteCSM(csm, x.Var))} })
	obs["write"] = w
	// reference values of the commands the writer must have produced: the public index arithmetic
	// the writer itself uses, on the bucket as the catalog knows it after the write
	refs := []drv.Obs{}
	for i := range x.Buckets {
		b := &x.Buckets[i]
		tbk := io.NewTimeBucketKey(b.Key)
		ref := drv.Obs{"key": b.Key}
		tbi, err := c.In.Cat.GetLatestTimeBucketInfoFromKey(tbk)
		if err != nil {
			ref["err"] = err.Error()
			refs = append(refs, ref)
			continue
		}
		ref["reclen"] = tbi.GetRecordLength()
		ref["vrl"] = tbi.GetVariableRecordLength()
		ref["rectype"] = int(tbi.GetRecordType())
		idx, off, yrs := []int64{}, []int64{}, []int{}
		for _, t := range b.Times {
			tt := time.Unix(t, 0).UTC()
			ix := io.TimeToIndex(tt, tbi.GetTimeframe())
			idx = append(idx, ix)
			off = append(off, io.IndexToOffset(ix, tbi.GetRecordLength()))
			yrs = append(yrs, tt.Year())
		}
		ref["index"], ref["offset"], ref["year"] = idx, off, yrs
		refs = append(refs, ref)
	}
	obs["refs"] = refs
	obs["root"] = c.In.Root
	// the WAL file must hold exactly the bytes handed to the replication sender
	var walTail []byte
	if f, err := os.Open(walName); err == nil {
		st, _ := f.Stat()
		if st.Size() > before {
			walTail = make([]byte, st.Size()-before)
			_, _ = f.ReadAt(walTail, before)
		}
		f.Close()
	}
	// WAL tail of one flush: TXNINFO(1+8+1+1) | TGDATA(1) | len(8) | transaction group | md5(16) | TXNINFO(11)
	var walTG []byte
	walNote := "ok"
	const pre = 11 + 1
	if len(walTail) < pre+8 {
		walNote = fmt.Sprintf("WAL grew by %d bytes only", len(walTail))
	} else if walTail[0] != byte(executor.TXNINFO) || walTail[11] != byte(executor.TGDATA) {
		walNote = "unexpected message ids in the WAL tail"
	} else {
		l := int64(binary.LittleEndian.Uint64(walTail[pre:]))
		if l < 0 || int64(len(walTail)) < pre+8+l {
			walNote = fmt.Sprintf("WAL length prefix %d exceeds the %d bytes written", l, len(walTail))
		} else {
			walTG = walTail[pre+8 : pre+8+l]
		}
	}
	obs["wal_note"] = walNote
	parse := func(tgCopy []byte) drv.Obs {
		return guard(func() drv.Obs {
			id, sets := executor.ParseTGData(tgCopy, c.In.Root)
			out := []drv.Obs{}
			for i := range sets {
				s := &sets[i]
				e := drv.Obs{"rectype": int(s.RecordType), "path": s.FilePath, "datalen": s.DataLen, "vrl": s.VarRecLen,
					"shapes": shapesOut(s.DataShapes), "buflen": len(s.Buffer)}
				if len(s.Buffer) >= 16 {
					e["offset"] = s.Buffer.Offset()
					e["index"] = s.Buffer.Index()
					e["payload"] = hex.EncodeToString(s.Buffer.Payload())
				}
				out = append(out, e)
			}
			return drv.Obs{"tgid": id, "sets": out}
		})
	}
	tgs := []drv.Obs{}
	for _, tg := range cap.tgs {
		t := drv.Obs{"len": len(tg), "hex": hex.EncodeToString(tg), "parse": parse(tg)}
		if walTG != nil {
			same := bytes.Equal(walTG, tg)
			t["wal_same"] = same
			if !same {
				t["wal_hex"] = hex.EncodeToString(walTG)
				t["wal_parse"] = parse(walTG)
			}
		}
		tgs = append(tgs, t)
	}
	obs["tgs"] = tgs
	return obs
}

func errS(err error) interface{} {
	if err == nil {
		return nil
	}
	return err.Error()
}

type c28dsvx struct {
	Names []string `json:"names"` // hex
	Types []int    `json:"types"`
	// run-length form: Runs[k] = [count, name length, type code]; names are generated "<index>" padded
	Runs [][3]int `json:"runs"`
}

// genName gives the k-th distinct name of the requested length (base-200 digits over bytes 0x30.., never 0x00)
func genName(k, l int) string {
	b := make([]byte, l)
	for i := range b {
		b[i] = 'n'
	}
	for i := 0; i < l && i < 3; i++ {
		b[i] = byte(0x30 + k%200)
		k /= 200
	}
	return string(b)
}

func c28dsv(_ *drv.Ctx, o *drv.Op) drv.Obs {
	var x c28dsvx
	if err := json.Unmarshal(o.X, &x); err != nil {
		return bad(err)
	}
	var dsv []io.DataShape
	for i, n := range x.Names {
		b, err := hex.DecodeString(n)
		if err != nil {
			return bad(err)
		}
		dsv = append(dsv, io.DataShape{Name: string(b), Type: io.EnumElementType(x.Types[i])})
	}
	k := 0
	for _, r := range x.Runs {
		for j := 0; j < r[0]; j++ {
			dsv = append(dsv, io.DataShape{Name: genName(k, r[1]), Type: io.EnumElementType(r[2])})
			k++
		}
	}
	obs := drv.Obs{}
	var enc []byte
	obs["enc"] = guard(func() drv.Obs {
		b, err := io.DSVToBytes(dsv)
		if err != nil {
			return drv.Obs{"err": err.Error()}
		}
		enc = b
		return drv.Obs{"err": nil, "hex": hex.EncodeToString(b), "nil": b == nil}
	})
	in := []drv.Obs{}
	for _, s := range dsv {
		in = append(in, drv.Obs{"nhex": hex.EncodeToString([]byte(s.Name)), "code": int(s.Type)})
	}
	obs["in"] = in
	// the transaction-group parser hands DSVFromBytes the rest of the buffer; a trailing sentinel
	// makes reads past the encoding visible instead of fatal
	for _, tailLen := range []int{0, 3} {
		buf := append(append([]byte{}, enc...), bytes.Repeat([]byte{0xEE}, tailLen)...)
		key := "dec"
		if tailLen > 0 {
			key = "dec_tail"
		}
		obs[key] = guard(func() drv.Obs {
			shapes, n := io.DSVFromBytes(buf)
			return drv.Obs{"shapes": shapesOut(shapes), "bytes": n}
		})
	}
	return obs
}

func init() {
	drv.Extra["c29_rows"] = c29rows
	drv.Extra["c27_numpy"] = c27numpy
	drv.Extra["c28_tg"] = c28tg
	drv.Extra["c28_dsv"] = c28dsv
}

func main() { drv.Main() }
