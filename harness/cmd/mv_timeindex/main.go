// mv_timeindex is the harness binary of the "timeindex" family (C30, C31).
//
// It adds ops that evaluate the real interval-index and candle-window functions
// of the repository on batches of inputs and return plain tables.  Nothing is
// interpreted here; all expectations live in spec/TimeIndex.tla and
// checks/timeindex.py.
//
//	ti_zones  : the zone-offset table of Go's tz data for the given zones and
//	            years (an INPUT of the specification, not an oracle)
//	ti_index  : io.TimeToIndex / IndexToOffset / TimeToOffset / IndexToTime /
//	            EpochToIndex / EpochToOffset / FileSize under a configured zone
//	ti_candle : CandleDuration.Truncate / Ceil / IsWithin under a configured zone
//	ti_parse  : CandleDurationFromString / TimeframeFromString /
//	            TimeframeFromDuration / QueryableTimeframe, utils.Timeframes
package main

import (
	"encoding/json"
	"fmt"
	"runtime/debug"
	"time"

	"github.com/alpacahq/marketstore/v4/utils"
	"github.com/alpacahq/marketstore/v4/utils/io"

	"mktsverif/drv"
)

func guard(obs *drv.Obs) {
	if r := recover(); r != nil {
		*obs = drv.Obs{"panic": fmt.Sprint(r), "stack": string(debug.Stack())}
	}
}

func setZone(name string) (*time.Location, error) {
	loc, err := time.LoadLocation(name)
	if err != nil {
		return nil, err
	}
	utils.InstanceConfig.Timezone = loc
	return loc, nil
}

// ---------------------------------------------------------------------------------------------
type zonesArgs struct {
	Zones []string `json:"zones"`
	From  int      `json:"from"` // first year
	To    int      `json:"to"`   // last year (inclusive)
}

// zonesOp lists, for every zone, the UTC offset in force at the start of the range and every
// later instant (Unix seconds) at which the offset changes, with the new offset.
func zonesOp(_ *drv.Ctx, o *drv.Op) (obs drv.Obs) {
	defer guard(&obs)
	var a zonesArgs
	if err := json.Unmarshal(o.X, &a); err != nil {
		return drv.Obs{"err": err.Error(), "driver_error": true}
	}
	out := map[string]interface{}{}
	for _, z := range a.Zones {
		loc, err := time.LoadLocation(z)
		if err != nil {
			return drv.Obs{"err": err.Error(), "driver_error": true}
		}
		t := time.Date(a.From, 1, 1, 0, 0, 0, 0, time.UTC).Add(-48 * time.Hour).In(loc)
		end := time.Date(a.To+1, 1, 1, 0, 0, 0, 0, time.UTC).Add(48 * time.Hour)
		_, off := t.Zone()
		rows := [][]int64{{t.Unix(), int64(off)}}
		for {
			_, e := t.ZoneBounds()
			if e.IsZero() || !e.Before(end) {
				break
			}
			_, off = e.Zone()
			if int64(off) != rows[len(rows)-1][1] {
				rows = append(rows, []int64{e.Unix(), int64(off)})
			}
			t = e
		}
		out[z] = rows
	}
	return drv.Obs{"err": nil, "zones": out}
}

// ---------------------------------------------------------------------------------------------
type indexArgs struct {
	TZ string `json:"tz"`
	// rows: [tf_ns, epoch_sec, nanos, record_len]
	Rows [][]int64 `json:"rows"`
}

// indexOp returns per row
// [year, index, IndexToOffset(index), TimeToOffset(t), IndexToTime(index).Unix, .Nanosecond,
//
//	TimeToIndex(IndexToTime(index)), FileSize(tf, year, reclen), EpochToIndex(sec), EpochToOffset(sec)]
func indexOp(_ *drv.Ctx, o *drv.Op) (obs drv.Obs) {
	defer guard(&obs)
	var a indexArgs
	if err := json.Unmarshal(o.X, &a); err != nil {
		return drv.Obs{"err": err.Error(), "driver_error": true}
	}
	if _, err := setZone(a.TZ); err != nil {
		return drv.Obs{"err": err.Error(), "driver_error": true}
	}
	out := make([][]int64, 0, len(a.Rows))
	for _, r := range a.Rows {
		tf := time.Duration(r[0])
		t := time.Unix(r[1], r[2])
		rl := int32(r[3])
		year := io.ToSystemTimezone(t).Year()
		idx := io.TimeToIndex(t, tf)
		back := io.IndexToTime(idx, tf, int16(year))
		out = append(out, []int64{
			int64(year), idx, io.IndexToOffset(idx, rl), io.TimeToOffset(t, tf, rl),
			back.Unix(), int64(back.Nanosecond()), io.TimeToIndex(back, tf),
			io.FileSize(tf, year, int(rl)), io.EpochToIndex(r[1], tf), io.EpochToOffset(r[1], tf, rl),
		})
	}
	return drv.Obs{"err": nil, "rows": out, "headersize": io.Headersize, "local": time.Local.String()}
}

// ---------------------------------------------------------------------------------------------
type candleItem struct {
	CD string  `json:"cd"`
	TS []int64 `json:"ts"` // epoch seconds
	NS int64   `json:"ns"` // nanoseconds added to every timestamp
}
type candleArgs struct {
	TZ    string       `json:"tz"`
	Items []candleItem `json:"items"`
}

func sn(t time.Time) (int64, int64) { return t.Unix(), int64(t.Nanosecond()) }

// candleOp returns, per item, per timestamp ts (in the configured zone, as ColumnSeries.GetTime delivers it):
// T=Truncate(ts), C=Ceil(ts), W=IsWithin(ts,T), and the same three functions at the last nanosecond before C
// and at C itself:  [T.s,T.ns, C.s,C.ns, W, Truncate(C-1ns).s,.ns, IsWithin(C-1ns,T), Truncate(C).s,.ns, Ceil(T).s,.ns]
func candleOp(_ *drv.Ctx, o *drv.Op) (obs drv.Obs) {
	defer guard(&obs)
	var a candleArgs
	if err := json.Unmarshal(o.X, &a); err != nil {
		return drv.Obs{"err": err.Error(), "driver_error": true}
	}
	if _, err := setZone(a.TZ); err != nil {
		return drv.Obs{"err": err.Error(), "driver_error": true}
	}
	b2i := func(b bool) int64 {
		if b {
			return 1
		}
		return 0
	}
	res := make([]interface{}, 0, len(a.Items))
	for _, it := range a.Items {
		cd, err := utils.CandleDurationFromString(it.CD)
		if err != nil || cd == nil {
			res = append(res, map[string]interface{}{"err": fmt.Sprint(err)})
			continue
		}
		rows := make([][]int64, 0, len(it.TS))
		for _, s := range it.TS {
			ts := io.ToSystemTimezone(time.Unix(s, it.NS))
			T := cd.Truncate(ts)
			C := cd.Ceil(ts)
			last := C.Add(-time.Nanosecond)
			ts1, tn1 := sn(T)
			cs1, cn1 := sn(C)
			ls, ln := sn(cd.Truncate(last))
			es, en := sn(cd.Truncate(C))
			fs, fn := sn(cd.Ceil(T))
			rows = append(rows, []int64{ts1, tn1, cs1, cn1, b2i(cd.IsWithin(ts, T)), ls, ln, b2i(cd.IsWithin(last, T)), es, en, fs, fn})
		}
		res = append(res, map[string]interface{}{"err": nil, "rows": rows, "dur": int64(cd.Duration()), "str": cd.String})
	}
	return drv.Obs{"err": nil, "items": res}
}

// ---------------------------------------------------------------------------------------------
type parseArgs struct {
	Strings   []string `json:"strings"`
	Durations []int64  `json:"durations"`
}

func tfObs(tf *utils.Timeframe) interface{} {
	if tf == nil {
		return nil
	}
	return map[string]interface{}{"str": tf.String, "dur": int64(tf.Duration)}
}

func parseOp(_ *drv.Ctx, o *drv.Op) (obs drv.Obs) {
	defer guard(&obs)
	var a parseArgs
	if err := json.Unmarshal(o.X, &a); err != nil {
		return drv.Obs{"err": err.Error(), "driver_error": true}
	}
	strs := make([]interface{}, 0, len(a.Strings))
	for _, s := range a.Strings {
		m := map[string]interface{}{"in": s}
		cd, err := utils.CandleDurationFromString(s)
		if err != nil || cd == nil {
			m["cd"] = nil
			m["cd_err"] = fmt.Sprint(err)
		} else {
			q := cd.QueryableTimeframe()
			m["cd"] = map[string]interface{}{"str": cd.String, "dur": int64(cd.Duration()), "q": q, "q_tf": tfObs(utils.TimeframeFromString(q))}
			// print and parse again
			cd2, err2 := utils.CandleDurationFromString(cd.String)
			if err2 == nil && cd2 != nil {
				m["cd2"] = map[string]interface{}{"str": cd2.String, "dur": int64(cd2.Duration()), "q": cd2.QueryableTimeframe()}
			}
		}
		tf := utils.TimeframeFromString(s)
		m["tf"] = tfObs(tf)
		if tf != nil {
			m["tf2"] = tfObs(utils.TimeframeFromString(tf.String))
			back := utils.TimeframeFromDuration(tf.Duration)
			m["tf_dur_back"] = tfObs(back)
			if back != nil {
				m["tf_dur_back_parsed"] = tfObs(utils.TimeframeFromString(back.String))
			}
		}
		strs = append(strs, m)
	}
	durs := make([]interface{}, 0, len(a.Durations))
	for _, d := range a.Durations {
		m := map[string]interface{}{"in": d}
		tf := utils.TimeframeFromDuration(time.Duration(d))
		m["tf"] = tfObs(tf)
		if tf != nil {
			m["parsed"] = tfObs(utils.TimeframeFromString(tf.String))
			cd, err := utils.CandleDurationFromString(tf.String)
			if err == nil && cd != nil {
				m["cd"] = map[string]interface{}{"str": cd.String, "dur": int64(cd.Duration())}
			}
		}
		durs = append(durs, m)
	}
	tfs := make([]interface{}, 0, len(utils.Timeframes))
	for _, tf := range utils.Timeframes {
		tfs = append(tfs, map[string]interface{}{"str": tf.String, "dur": int64(tf.Duration), "ppd": tf.PeriodsPerDay()})
	}
	return drv.Obs{"err": nil, "strings": strs, "durations": durs, "timeframes": tfs}
}

func init() {
	drv.Extra["ti_zones"] = zonesOp
	drv.Extra["ti_index"] = indexOp
	drv.Extra["ti_candle"] = candleOp
	drv.Extra["ti_parse"] = parseOp
}

func main() { drv.Main() }
