package drv

import (
	"context"
	"sort"

	"github.com/alpacahq/marketstore/v4/frontend"
	"github.com/alpacahq/marketstore/v4/proto"
	"github.com/alpacahq/marketstore/v4/utils/io"
	gproto "google.golang.org/protobuf/proto"
)

// wire passes a protobuf message through its wire format (what a real client/server pair does).
func wire(in, out gproto.Message) error {
	b, err := gproto.Marshal(in)
	if err != nil {
		return err
	}
	return gproto.Unmarshal(b, out)
}

func multiResp(r *proto.MultiServerResponse, err error) Obs {
	if err != nil {
		return Obs{"err": err.Error()}
	}
	var back proto.MultiServerResponse
	if err := wire(r, &back); err != nil {
		return Obs{"err": "wire: " + err.Error(), "driver_error": true}
	}
	for _, x := range back.Responses {
		if x.Error != "" {
			return Obs{"err": x.Error}
		}
	}
	return Obs{"err": nil}
}

// grpcExec runs the ops the gRPC front end offers; other ops fall through to the default implementation.
func (c *Ctx) grpcExec(o *Op) (Obs, bool) {
	ctx := context.Background()
	switch o.Op {
	case "create":
		req := &proto.MultiCreateRequest{}
		cr := &proto.CreateRequest{Key: o.Key, RowType: "fixed"}
		if o.Var {
			cr.RowType = "variable"
		}
		for i, n := range o.Names {
			cr.DataShapes = append(cr.DataShapes, &proto.DataShape{Name: n, Type: o.Types[i]})
		}
		req.Requests = append(req.Requests, cr)
		var in proto.MultiCreateRequest
		if err := wire(req, &in); err != nil {
			return Obs{"err": "wire: " + err.Error(), "driver_error": true}, true
		}
		return multiResp(c.In.Grpc.Create(ctx, &in)), true
	case "destroy":
		req := &proto.MultiKeyRequest{Requests: []*proto.KeyRequest{{Key: o.Key}}}
		var in proto.MultiKeyRequest
		if err := wire(req, &in); err != nil {
			return Obs{"err": "wire: " + err.Error(), "driver_error": true}, true
		}
		return multiResp(c.In.Grpc.Destroy(ctx, &in)), true
	case "list":
		f := proto.ListSymbolsRequest_SYMBOL
		if o.Format == "tbk" {
			f = proto.ListSymbolsRequest_TIME_BUCKET_KEY
		}
		r, err := c.In.Grpc.ListSymbols(ctx, &proto.ListSymbolsRequest{Format: f})
		if err != nil {
			return Obs{"err": err.Error(), "results": []string{}}, true
		}
		res := append([]string{}, r.Results...)
		sort.Strings(res)
		return Obs{"err": nil, "results": res}, true
	case "write":
		if o.Via == "csm" {
			return nil, false // a direct Writer call is not a front-end request
		}
		var nmds *io.NumpyMultiDataset
		for _, b := range o.Buckets {
			cs, err := ToCS(b.Cols)
			if err != nil {
				return Obs{"err": err.Error(), "driver_error": true}, true
			}
			tbk := io.NewTimeBucketKey(b.Key)
			if nmds == nil {
				nds, err := io.NewNumpyDataset(cs)
				if err != nil {
					return Obs{"err": err.Error(), "driver_error": true}, true
				}
				nmds, _ = io.NewNumpyMultiDataset(nds, *tbk)
			} else if err := nmds.Append(cs, *tbk); err != nil {
				return Obs{"err": err.Error(), "driver_error": true}, true
			}
		}
		req := &proto.MultiWriteRequest{Requests: []*proto.WriteRequest{{Data: frontend.ToProtoNumpyMultiDataSet(nmds), IsVariableLength: o.Var}}}
		var in proto.MultiWriteRequest
		if err := wire(req, &in); err != nil {
			return Obs{"err": "wire: " + err.Error(), "driver_error": true}, true
		}
		return multiResp(c.In.Grpc.Write(ctx, &in)), true
	case "query":
		q := &proto.QueryRequest{Destination: o.Dest, Columns: o.Cols, Functions: o.Functions}
		if o.Start != nil {
			q.EpochStart, q.EpochStartNanos = o.Start[0], o.Start[1]
		}
		if o.End != nil {
			q.EpochEnd, q.EpochEndNanos = o.End[0], o.End[1]
		}
		if o.Limit != nil {
			q.LimitRecordCount = int32(*o.Limit)
		}
		if o.FromStart != nil {
			q.LimitFromStart = *o.FromStart
		}
		var in proto.MultiQueryRequest
		if err := wire(&proto.MultiQueryRequest{Requests: []*proto.QueryRequest{q}}, &in); err != nil {
			return Obs{"err": "wire: " + err.Error(), "driver_error": true}, true
		}
		r, err := c.In.Grpc.Query(ctx, &in)
		if err != nil {
			return Obs{"err": err.Error()}, true
		}
		var back proto.MultiQueryResponse
		if err := wire(r, &back); err != nil {
			return Obs{"err": "wire: " + err.Error(), "driver_error": true}, true
		}
		res := map[string][]OutCol{}
		for _, resp := range back.Responses {
			if resp.Result == nil || resp.Result.Data == nil {
				continue
			}
			nmds := frontend.ToNumpyMultiDataSet(resp.Result)
			for tbkStr, startIndex := range nmds.StartIndex {
				cs, err := nmds.ToColumnSeries(startIndex, nmds.Lengths[tbkStr])
				if err != nil {
					return Obs{"err": "decode: " + err.Error()}, true
				}
				res[tbkStr] = FromCS(cs)
			}
		}
		return Obs{"err": nil, "result": res}, true
	}
	return nil, false
}
