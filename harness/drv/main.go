// The case loop: drives the real marketstore code for the /verif checks.
//
//	mktsverif cases --in cases.ndjson --out obs.ndjson [--from k]
//
// Each input line is {"id":..., "ops":[...]} ; each output line is
// {"id":..., "obs":[...]} written and flushed as soon as the case finished, so a
// process death (log.Fatal, runtime fatal error) is attributable to one case.
package drv

import (
	"bufio"
	"bytes"
	"encoding/json"
	"flag"
	"fmt"
	"os"

	)

type Case struct {
	ID  json.RawMessage `json:"id"`
	Ops []Op        `json:"ops"`
}

// Subcommands lets a family binary add its own entry points next to "cases".
var Subcommands = map[string]func(args []string) int{}

func casesMain(args []string) int {
	fs := flag.NewFlagSet("cases", flag.ExitOnError)
	in := fs.String("in", "", "input ndjson")
	out := fs.String("out", "", "output ndjson")
	from := fs.Int("from", 0, "skip this many cases")
	_ = fs.Parse(args)
	fin, err := os.Open(*in)
	if err != nil {
		fmt.Fprintln(os.Stderr, err)
		return 2
	}
	defer fin.Close()
	fout, err := os.OpenFile(*out, os.O_CREATE|os.O_WRONLY|os.O_APPEND, 0o644)
	if err != nil {
		fmt.Fprintln(os.Stderr, err)
		return 2
	}
	defer fout.Close()
	OpenMarks()
	sc := bufio.NewScanner(fin)
	sc.Buffer(make([]byte, 1<<20), 1<<30)
	ctx := &Ctx{}
	n := 0
	for sc.Scan() {
		if n < *from {
			n++
			continue
		}
		n++
		var c Case
		d := json.NewDecoder(bytes.NewReader(sc.Bytes()))
		d.UseNumber()
		if err := d.Decode(&c); err != nil {
			fmt.Fprintln(os.Stderr, "bad case:", err)
			return 2
		}
		// announce the case first so that a death is attributable
		fmt.Fprintf(fout, "{\"begin\":%s}\n", string(c.ID))
		obs := make([]Obs, 0, len(c.Ops))
		for i := range c.Ops {
			Mark("issue %s %d %s", string(c.ID), i, c.Ops[i].Op)
			o := ctx.Exec(&c.Ops[i])
			st := "ok"
			if o["panic"] != nil {
				st = "panic"
			} else if o["err"] != nil {
				st = "err"
			}
			Mark("done %s %d %s", string(c.ID), i, st)
			obs = append(obs, o)
		}
		b, err := json.Marshal(map[string]interface{}{"id": c.ID, "obs": obs})
		if err != nil {
			fmt.Fprintln(os.Stderr, "marshal:", err)
			return 2
		}
		fout.Write(append(b, '\n'))
	}
	return 0
}

// Main is the entry point shared by all harness binaries.
func Main() {
	Subcommands["cases"] = casesMain
	if len(os.Args) < 2 {
		fmt.Fprintln(os.Stderr, "usage: mktsverif <subcommand> ...")
		os.Exit(2)
	}
	f, ok := Subcommands[os.Args[1]]
	if !ok {
		fmt.Fprintln(os.Stderr, "unknown subcommand", os.Args[1])
		os.Exit(2)
	}
	os.Exit(f(os.Args[2:]))
}
