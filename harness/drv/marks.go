package drv

import (
	"fmt"
	"os"
	"strings"
	"sync"

	"github.com/alpacahq/marketstore/v4/verifhook"
)

// Marker events: one write(2) per event to the file named by VERIF_MARK_FILE, so that a strace log of the
// process totally orders them with the file system calls of the real code.
var (
	markFile *os.File
	markMu   sync.Mutex
	markSeq  int
)

func OpenMarks() {
	p := os.Getenv("VERIF_MARK_FILE")
	if p == "" {
		verifhook.Set(func(point string, args ...interface{}) { NoteHook(point) })
		return
	}
	f, err := os.OpenFile(p, os.O_WRONLY|os.O_APPEND|os.O_CREATE, 0o644)
	if err != nil {
		fmt.Fprintln(os.Stderr, "marks:", err)
		os.Exit(2)
	}
	markFile = f
	if os.Getenv("VERIF_HOOK_MARKS") != "" {
		skip := map[string]bool{}
		for _, p := range strings.Split(os.Getenv("VERIF_HOOK_SKIP"), ",") {
			skip[p] = true
		}
		verifhook.Set(func(point string, args ...interface{}) {
			NoteHook(point)
			if skip[point] {
				return
			}
			Mark("hook %s %s", point, fmt.Sprint(args...))
		})
	}
}

// Mark emits one marker line.
func Mark(format string, a ...interface{}) {
	if markFile == nil {
		return
	}
	markMu.Lock()
	markSeq++
	line := fmt.Sprintf("M %d %s\n", markSeq, fmt.Sprintf(format, a...))
	_, _ = markFile.WriteString(line)
	markMu.Unlock()
}
