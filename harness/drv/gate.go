package drv

import (
	"bytes"
	"encoding/json"
	"fmt"
	"runtime"
	"strconv"
	"strings"
	"sync"
	"time"

	"github.com/alpacahq/marketstore/v4/verifhook"
)

// Schedule player: forces an interleaving of real goroutines at the verifhook points.
//
// Every goroutine that reaches a *gated* point parks there until the controller releases it.  A schedule is a list
// of steps {actor, until}: "release the actor and let it run until it parks at its next gated point" where `until`
// names the point at which the model expects it to park, or "done" (its ops have finished) or "blocked" (it must not
// arrive anywhere within the timeout: it is waiting on a channel / lock).  Any other outcome ends the play with
// drift information (the schedule is not feasible on the real code) - that is never a property violation.

type playStep struct {
	Actor  string `json:"actor"`
	Until  string `json:"until"`
	Probe  []Op   `json:"probe,omitempty"` // ops run by the controller after the step
	Label  string `json:"label,omitempty"`
	OrDone bool   `json:"or_done,omitempty"`
	WaitMs int    `json:"wait_ms,omitempty"` // step-specific timeout (for "blocked" expectations)
	Arg    string `json:"arg,omitempty"`     // if set, the hook's arguments must print as this
}

type playSpec struct {
	Actors    map[string][]Op `json:"actors"`
	Gated     []string        `json:"gated"`
	Schedule  []playStep      `json:"schedule"`
	TimeoutMs int             `json:"timeout_ms"`
	// background goroutines are recognised by the prefix of the first gated point they reach
	Background map[string]string `json:"background"` // point prefix -> actor name
	Finish     bool              `json:"finish"`     // release everybody at the end and wait for the actors
}

type parkEvent struct {
	actor string
	point string
	args  string
	done  bool
	obs   []Obs
}

type player struct {
	mu      sync.Mutex
	gated   map[string]bool
	byGid   map[int64]string
	bg      map[string]string
	release map[string]chan struct{}
	events  chan parkEvent
	parked  map[string]string // actor -> point where it is parked now
	free    bool              // after the play: nobody parks any more
	passed  map[string][]string
	log     []string
}

func gid() int64 {
	var buf [64]byte
	n := runtime.Stack(buf[:], false)
	f := bytes.Fields(buf[:n])
	if len(f) < 2 {
		return -1
	}
	id, _ := strconv.ParseInt(string(f[1]), 10, 64)
	return id
}

func (p *player) handler(point string, args ...interface{}) {
	NoteHook(point)
	p.mu.Lock()
	g := gid()
	if a, known := p.byGid[g]; known {
		// every hook point an actor passes, gated or not, parked or free ("point|args" when the point has arguments)
		if len(args) > 0 {
			p.passed[a] = append(p.passed[a], point+"|"+fmt.Sprint(args...))
		} else {
			p.passed[a] = append(p.passed[a], point)
		}
	}
	if p.free || !p.gated[point] {
		p.mu.Unlock()
		return
	}
	actor, ok := p.byGid[g]
	if !ok {
		for pre, name := range p.bg {
			if strings.HasPrefix(point, pre) {
				actor, ok = name, true
				p.byGid[g] = name
				break
			}
		}
	}
	if !ok {
		p.mu.Unlock()
		return // a goroutine the schedule does not know: let it run
	}
	ch, ok := p.release[actor]
	if !ok {
		ch = make(chan struct{})
		p.release[actor] = ch
	}
	p.mu.Unlock()
	p.events <- parkEvent{actor: actor, point: point, args: fmt.Sprint(args...)}
	<-ch
}

// par: run several op lists concurrently on the real code, no gating (stress / race detector runs)
func (c *Ctx) par(actors map[string][]Op) Obs {
	var wg sync.WaitGroup
	var mu sync.Mutex
	out := map[string][]Obs{}
	for name, ops := range actors {
		wg.Add(1)
		go func(name string, ops []Op) {
			defer wg.Done()
			var obs []Obs
			for i := range ops {
				obs = append(obs, c.Exec(&ops[i]))
			}
			mu.Lock()
			out[name] = obs
			mu.Unlock()
		}(name, ops)
	}
	wg.Wait()
	return Obs{"actors": out}
}

func init() {
	Extra["par"] = func(c *Ctx, o *Op) Obs {
		var x struct {
			Actors map[string][]Op `json:"actors"`
		}
		d := json.NewDecoder(bytes.NewReader(o.X))
		d.UseNumber()
		if err := d.Decode(&x); err != nil {
			return Obs{"err": "bad par spec: " + err.Error(), "driver_error": true}
		}
		return c.par(x.Actors)
	}
	Extra["play"] = func(c *Ctx, o *Op) Obs {
		var sp playSpec
		d := json.NewDecoder(bytes.NewReader(o.X))
		d.UseNumber()
		if err := d.Decode(&sp); err != nil {
			return Obs{"err": "bad play spec: " + err.Error(), "driver_error": true}
		}
		return c.play(&sp)
	}
}

func (c *Ctx) play(sp *playSpec) Obs {
	p := &player{gated: map[string]bool{}, byGid: map[int64]string{}, bg: sp.Background, release: map[string]chan struct{}{},
		events: make(chan parkEvent, 1024), parked: map[string]string{}, passed: map[string][]string{}}
	for _, g := range sp.Gated {
		p.gated[g] = true
	}
	verifhook.Set(p.handler)
	defer verifhook.Set(func(point string, args ...interface{}) { NoteHook(point) })
	timeout := time.Duration(sp.TimeoutMs) * time.Millisecond
	if timeout == 0 {
		timeout = 300 * time.Millisecond
	}
	started := map[string]bool{}
	finished := map[string][]Obs{}
	var wg sync.WaitGroup
	start := func(name string) {
		started[name] = true
		ops := sp.Actors[name]
		ready := make(chan struct{})
		wg.Add(1)
		go func() {
			defer wg.Done()
			p.mu.Lock()
			p.byGid[gid()] = name
			if _, ok := p.release[name]; !ok {
				p.release[name] = make(chan struct{})
			}
			p.mu.Unlock()
			close(ready)
			var obs []Obs
			for i := range ops {
				obs = append(obs, c.Exec(&ops[i]))
			}
			p.events <- parkEvent{actor: name, done: true, obs: obs}
		}()
		<-ready
	}
	steps := []Obs{}
	pending := map[string]parkEvent{} // events of actors other than the one being stepped (background goroutines arriving)
	drift := ""
	waitFor := func(actor string, tmo time.Duration) (parkEvent, bool) {
		if ev, ok := pending[actor]; ok {
			delete(pending, actor)
			return ev, true
		}
		deadline := time.After(tmo)
		for {
			select {
			case ev := <-p.events:
				if ev.done {
					finished[ev.actor] = ev.obs
				} else {
					p.parked[ev.actor] = ev.point
				}
				if ev.actor == actor {
					return ev, true
				}
				pending[ev.actor] = ev
			case <-deadline:
				return parkEvent{}, false
			}
		}
	}
	for i, st := range sp.Schedule {
		rec := Obs{"i": i, "actor": st.Actor, "until": st.Until, "label": st.Label}
		if _, isActor := sp.Actors[st.Actor]; isActor && !started[st.Actor] {
			start(st.Actor)
		} else if _, arrived := pending[st.Actor]; arrived {
			// the actor reached a gated point (or finished) while another actor was being stepped: this step
			// only takes note of that arrival; the actor stays parked until its next step
		} else if pt, ok := p.parked[st.Actor]; ok && pt != "" {
			p.parked[st.Actor] = ""
			p.mu.Lock()
			ch := p.release[st.Actor]
			p.mu.Unlock()
			ch <- struct{}{}
		} else if _, isActor := sp.Actors[st.Actor]; isActor {
			if _, fin := finished[st.Actor]; fin {
				drift = fmt.Sprintf("step %d: actor %s has already finished", i, st.Actor)
				rec["drift"] = drift
				steps = append(steps, rec)
				break
			}
			// started but neither parked nor finished: it is blocked somewhere; just wait
		}
		tmo := timeout
		if st.WaitMs > 0 {
			tmo = time.Duration(st.WaitMs) * time.Millisecond
		}
		ev, ok := waitFor(st.Actor, tmo)
		switch {
		case !ok:
			rec["got"] = "blocked"
		case ev.done:
			rec["got"] = "done"
			rec["obs"] = ev.obs
		default:
			rec["got"] = ev.point
			rec["args"] = ev.args
		}
		if rec["got"] == st.Until && st.Arg != "" && rec["args"] != st.Arg {
			drift = fmt.Sprintf("step %d: actor %s reached %q with argument %q, the schedule expects %q", i, st.Actor, st.Until, rec["args"], st.Arg)
			rec["drift"] = drift
			steps = append(steps, rec)
			break
		}
		if rec["got"] != st.Until && !(st.OrDone && rec["got"] == "done") {
			drift = fmt.Sprintf("step %d: actor %s expected to reach %q, got %q", i, st.Actor, st.Until, rec["got"])
			rec["drift"] = drift
			steps = append(steps, rec)
			break
		}
		if len(st.Probe) > 0 {
			var pobs []Obs
			for k := range st.Probe {
				pobs = append(pobs, c.Exec(&st.Probe[k]))
			}
			rec["probe"] = pobs
		}
		steps = append(steps, rec)
	}
	// let everybody go
	p.mu.Lock()
	p.free = true
	chans := []chan struct{}{}
	for a, pt := range p.parked {
		if pt != "" {
			chans = append(chans, p.release[a])
		}
	}
	p.mu.Unlock()
	for _, ch := range chans {
		select {
		case ch <- struct{}{}:
		case <-time.After(timeout):
		}
	}
	// drain late arrivals for a moment so that parked background goroutines do not stay blocked on the events channel
	drain := time.After(timeout)
	doneCh := make(chan struct{})
	go func() { wg.Wait(); close(doneCh) }()
	stuck := []string{}
loop:
	for {
		select {
		case ev := <-p.events:
			if ev.done {
				finished[ev.actor] = ev.obs
			} else {
				p.mu.Lock()
				ch := p.release[ev.actor]
				p.mu.Unlock()
				go func() { ch <- struct{}{} }()
			}
		case <-doneCh:
			break loop
		case <-drain:
			if !sp.Finish {
				break loop
			}
			for a := range started {
				if _, ok := finished[a]; !ok {
					stuck = append(stuck, a)
				}
			}
			break loop
		}
	}
	fin := map[string][]Obs{}
	for a, o := range finished {
		fin[a] = o
	}
	p.mu.Lock()
	passed := map[string][]string{}
	for a, pts := range p.passed {
		passed[a] = append([]string{}, pts...)
	}
	p.mu.Unlock()
	return Obs{"steps": steps, "drift": drift, "finished": fin, "stuck": stuck, "passed": passed}
}
