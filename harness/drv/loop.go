package drv

import (
	"sync/atomic"

	"github.com/alpacahq/marketstore/v4/verifhook"
)

// loopSeen is set by the first hook event of the background loop (any SyncWAL.* point).
var loopSeen int32

// LoopRunning reports whether the SyncWAL goroutine has been observed.  Without hooks it reports true.
func LoopRunning() bool {
	if !verifhook.Enabled() {
		return true
	}
	return atomic.LoadInt32(&loopSeen) != 0
}

// NoteHook lets the marker handler record loop liveness.
func NoteHook(point string) {
	if len(point) > 8 && point[:8] == "SyncWAL." {
		atomic.StoreInt32(&loopSeen, 1)
	}
}

// ResetLoopSeen forgets the previous instance's loop.
func ResetLoopSeen() { atomic.StoreInt32(&loopSeen, 0) }
