// Package drv is a thin JSON operation language over the real marketstore
// API (frontend.DataService and friends).  All abstraction / concretisation is
// done by the Python side; this package only executes and reports.
package drv

import (
	"encoding/binary"
	"encoding/json"
	"fmt"
	"math"
	"os"
	"path/filepath"
	"reflect"
	"runtime/debug"
	"sort"
	"strconv"
	"strings"
	"sync/atomic"
	"time"

	"github.com/alpacahq/marketstore/v4/catalog"
	"github.com/alpacahq/marketstore/v4/frontend"
	"github.com/alpacahq/marketstore/v4/utils/io"

	"mktsverif/inst"
)

// Col is one column of a bucket in a request or a result.
type Col struct {
	Name string        `json:"name"`
	Type string        `json:"type"`
	Vals []json.Number `json:"vals"`
}

type OutCol struct {
	Name string        `json:"name"`
	Type string        `json:"type"`
	Vals []interface{} `json:"vals"`
}

type Bucket struct {
	Key  string `json:"key"`
	Cols []Col  `json:"cols"`
}

type Op struct {
	Op string `json:"op"`
	// "grpc": create / write / query / destroy / list go through the gRPC front end (frontend.GRPCService) with the
	// request and the response passed through the protobuf wire format; default: the msgpack-RPC DataService
	Front string `json:"front,omitempty"`
	// start
	Root     string `json:"root,omitempty"`
	BgSync   bool   `json:"bgsync,omitempty"`
	TZ       string `json:"tz,omitempty"`
	Rotate   int    `json:"rotate,omitempty"`
	Verbose  bool   `json:"verbose,omitempty"`
	NoCompr  bool   `json:"nocompr,omitempty"`
	// start: run the real background loop SyncWAL(walRefresh, primaryRefresh, rotate) with these periods (ms)
	LoopWalMs  int `json:"loop_wal_ms,omitempty"`
	LoopPrimMs int `json:"loop_prim_ms,omitempty"`
	SleepMs    int `json:"sleep_ms,omitempty"`
	// create / getinfo / destroy
	Key   string   `json:"key,omitempty"`
	Names []string `json:"names,omitempty"`
	Types []string `json:"types,omitempty"`
	Var   bool     `json:"var,omitempty"`
	// write
	Via     string   `json:"via,omitempty"` // "rpc" (default) or "csm"
	Buckets []Bucket `json:"buckets,omitempty"`
	// query
	Dest      string   `json:"dest,omitempty"`
	Start     []int64  `json:"start,omitempty"` // [sec, nanos]
	End       []int64  `json:"end,omitempty"`
	Limit     *int     `json:"limit,omitempty"`
	FromStart *bool    `json:"fromstart,omitempty"`
	Cols      []string `json:"cols,omitempty"`
	Functions []string `json:"functions,omitempty"`
	Stmt      string   `json:"stmt,omitempty"`
	Format    string   `json:"format,omitempty"`
	// generic extra payload for family specific ops
	X json.RawMessage `json:"x,omitempty"`
}

type Obs map[string]interface{}

// Ctx is the state of one driver session.
type Ctx struct {
	In *inst.Instance
}

// Extra ops registered by other files/packages.
var Extra = map[string]func(c *Ctx, o *Op) Obs{}

func enc(typ string, vals []json.Number) ([]byte, error) {
	var out []byte
	for _, v := range vals {
		s := v.String()
		switch typ {
		case "i1":
			n, err := strconv.ParseInt(s, 10, 16) // the element type behind "i1" is Go's byte
			if err != nil || n < -128 || n > 255 {
				return nil, fmt.Errorf("i1 value %s out of range", s)
			}
			out = append(out, byte(n))
		case "u1":
			n, err := strconv.ParseUint(s, 10, 8)
			if err != nil {
				return nil, err
			}
			out = append(out, byte(n))
		case "i2":
			n, err := strconv.ParseInt(s, 10, 16)
			if err != nil {
				return nil, err
			}
			out = binary.LittleEndian.AppendUint16(out, uint16(n))
		case "u2":
			n, err := strconv.ParseUint(s, 10, 16)
			if err != nil {
				return nil, err
			}
			out = binary.LittleEndian.AppendUint16(out, uint16(n))
		case "i4":
			n, err := strconv.ParseInt(s, 10, 32)
			if err != nil {
				return nil, err
			}
			out = binary.LittleEndian.AppendUint32(out, uint32(n))
		case "u4":
			n, err := strconv.ParseUint(s, 10, 32)
			if err != nil {
				return nil, err
			}
			out = binary.LittleEndian.AppendUint32(out, uint32(n))
		case "i8":
			n, err := strconv.ParseInt(s, 10, 64)
			if err != nil {
				return nil, err
			}
			out = binary.LittleEndian.AppendUint64(out, uint64(n))
		case "u8":
			n, err := strconv.ParseUint(s, 10, 64)
			if err != nil {
				return nil, err
			}
			out = binary.LittleEndian.AppendUint64(out, n)
		case "f4":
			f, err := strconv.ParseFloat(s, 32)
			if err != nil {
				return nil, err
			}
			out = binary.LittleEndian.AppendUint32(out, math.Float32bits(float32(f)))
		case "f8":
			f, err := strconv.ParseFloat(s, 64)
			if err != nil {
				return nil, err
			}
			out = binary.LittleEndian.AppendUint64(out, math.Float64bits(f))
		default:
			return nil, fmt.Errorf("type %q not supported by driver", typ)
		}
	}
	return out, nil
}

// ToCS builds a ColumnSeries from JSON columns with the repository's own
// byte-to-slice conversion (the same one the RPC path uses).
func ToCS(cols []Col) (*io.ColumnSeries, error) {
	cs := io.NewColumnSeries()
	for _, c := range cols {
		et, ok := io.TypeStrToElemType(c.Type)
		if !ok {
			return nil, fmt.Errorf("unknown type %s", c.Type)
		}
		b, err := enc(c.Type, c.Vals)
		if err != nil {
			return nil, err
		}
		col, err := et.ConvertByteSliceInto(b)
		if err != nil {
			return nil, err
		}
		cs.AddColumn(c.Name, col)
	}
	return cs, nil
}

func fnum(f float64) interface{} {
	if math.IsNaN(f) {
		return "NaN"
	}
	if math.IsInf(f, 1) {
		return "+Inf"
	}
	if math.IsInf(f, -1) {
		return "-Inf"
	}
	return f
}

// FromCS renders a ColumnSeries as JSON columns (values exact: integers as
// integers, float32 widened to float64).
func FromCS(cs *io.ColumnSeries) []OutCol {
	if cs == nil {
		return nil
	}
	out := []OutCol{}
	for _, name := range cs.GetColumnNames() {
		col := cs.GetColumn(name)
		oc := OutCol{Name: name, Vals: []interface{}{}}
		if ts, ok := io.ToTypeStr(io.GetElementType(col)); ok {
			oc.Type = ts
		} else {
			oc.Type = fmt.Sprintf("%T", col)
		}
		v := reflect.ValueOf(col)
		if v.Kind() == reflect.Slice {
			for i := 0; i < v.Len(); i++ {
				e := v.Index(i)
				switch e.Kind() {
				case reflect.Int8, reflect.Int16, reflect.Int32, reflect.Int64, reflect.Int:
					oc.Vals = append(oc.Vals, e.Int())
				case reflect.Uint8, reflect.Uint16, reflect.Uint32, reflect.Uint64, reflect.Uint:
					oc.Vals = append(oc.Vals, e.Uint())
				case reflect.Float32, reflect.Float64:
					oc.Vals = append(oc.Vals, fnum(e.Float()))
				case reflect.Bool:
					oc.Vals = append(oc.Vals, e.Bool())
				default:
					oc.Vals = append(oc.Vals, fmt.Sprint(e.Interface()))
				}
			}
		}
		out = append(out, oc)
	}
	return out
}

func errStr(err error) interface{} {
	if err == nil {
		return nil
	}
	return err.Error()
}

func respErr(r *frontend.MultiServerResponse) interface{} {
	var es []string
	for _, x := range r.Responses {
		if x.Error != "" {
			es = append(es, x.Error)
		}
	}
	if len(es) == 0 {
		return nil
	}
	return strings.Join(es, "; ")
}

// Exec runs one op against the real code; a panic is reported, not propagated.
func (c *Ctx) Exec(o *Op) (obs Obs) {
	defer func() {
		if r := recover(); r != nil {
			obs = Obs{"panic": fmt.Sprint(r), "stack": string(debug.Stack())}
		}
	}()
	if f, ok := Extra[o.Op]; ok {
		return f(c, o)
	}
	if o.Front == "grpc" {
		if ob, handled := c.grpcExec(o); handled {
			return ob
		}
	}
	switch o.Op {
	case "start":
		opts := inst.Opts{BackgroundSync: o.BgSync, RotateInterval: o.Rotate, Verbose: o.Verbose, NoCompression: o.NoCompr}
		if o.TZ != "" {
			loc, err := time.LoadLocation(o.TZ)
			if err != nil {
				return Obs{"err": err.Error()}
			}
			opts.Timezone = loc
		}
		c.In = inst.Start(o.Root, opts)
		atomic.StoreUint32(&frontend.Queryable, 1)
		ResetLoopSeen()
		if o.LoopWalMs > 0 {
			// what internal/di/wal.go does when BackgroundSync is on, with configurable periods
			rot := o.Rotate
			if rot <= 0 {
				rot = 5
			}
			go c.In.WAL.SyncWAL(time.Duration(o.LoopWalMs)*time.Millisecond, time.Duration(o.LoopPrimMs)*time.Millisecond, rot)
			c.In.WAL.IncrementWaitGroup()
			// SyncWAL announces itself through its first tickCheck (walRefresh/100)
			for i := 0; i < 2000 && !LoopRunning(); i++ {
				time.Sleep(time.Millisecond)
			}
		}
		return Obs{"ok": true, "wal": filepath.Base(c.In.WAL.FilePtr.Name())}
	case "shutdown":
		c.In.WAL.Shutdown()
		return Obs{"ok": true}
	case "sleep":
		time.Sleep(time.Duration(o.SleepMs) * time.Millisecond)
		return Obs{"ok": true}
	case "checkpoint":
		// what SyncWAL does on tickerPrimary (without rotation)
		return Obs{"err": errStr(c.In.WAL.CreateCheckpoint())}
	case "flush":
		return Obs{"err": errStr(c.In.WAL.FlushToWAL())}
	case "create":
		var r frontend.MultiServerResponse
		err := c.In.Data.Create(nil, &frontend.MultiCreateRequest{Requests: []frontend.CreateRequest{{
			Key: o.Key, ColumnNames: o.Names, ColumnTypes: o.Types, IsVariableLength: o.Var}}}, &r)
		if err != nil {
			return Obs{"err": err.Error()}
		}
		return Obs{"err": respErr(&r)}
	case "destroy":
		var r frontend.MultiServerResponse
		err := c.In.Data.Destroy(nil, &frontend.MultiKeyRequest{Requests: []frontend.KeyRequest{{Key: o.Key}}}, &r)
		if err != nil {
			return Obs{"err": err.Error()}
		}
		return Obs{"err": respErr(&r)}
	case "getinfo":
		var r frontend.MultiGetInfoResponse
		err := c.In.Data.GetInfo(nil, &frontend.MultiKeyRequest{Requests: []frontend.KeyRequest{{Key: o.Key}}}, &r)
		if err != nil {
			return Obs{"err": err.Error()}
		}
		x := r.Responses[0]
		if x.ServerResp.Error != "" {
			return Obs{"err": x.ServerResp.Error}
		}
		names, types := []string{}, []string{}
		for _, ds := range x.DSV {
			names = append(names, ds.Name)
			ts, _ := io.ToTypeStr(ds.Type)
			types = append(types, ts)
		}
		return Obs{"err": nil, "year": x.LatestYear, "tf_ns": int64(x.TimeFrame), "names": names, "types": types,
			"var": x.RecordType == io.VARIABLE}
	case "write":
		return c.write(o)
	case "query":
		return c.query(o)
	case "sql":
		var r frontend.MultiQueryResponse
		err := c.In.Data.Query(nil, &frontend.MultiQueryRequest{Requests: []frontend.QueryRequest{{
			IsSQLStatement: true, SQLStatement: o.Stmt}}}, &r)
		if err != nil {
			return Obs{"err": err.Error()}
		}
		return resultObs(&r)
	case "list":
		var r frontend.ListSymbolsResponse
		err := c.In.Data.ListSymbols(nil, &frontend.ListSymbolsRequest{Format: o.Format}, &r)
		res := append([]string{}, r.Results...)
		sort.Strings(res)
		return Obs{"err": errStr(err), "results": res}
	case "fresh_catalog":
		root := o.Root
		if root == "" {
			root = c.In.Root
		}
		return FreshCatalog(root)
	case "mem_catalog":
		return memCatalog(c.In.Cat)
	case "disk":
		root := o.Root
		if root == "" {
			root = c.In.Root
		}
		return Disk(root)
	}
	return Obs{"err": "unknown op " + o.Op, "driver_error": true}
}

func (c *Ctx) write(o *Op) Obs {
	if o.Via == "csm" {
		csm := io.NewColumnSeriesMap()
		for _, b := range o.Buckets {
			cs, err := ToCS(b.Cols)
			if err != nil {
				return Obs{"err": err.Error(), "driver_error": true}
			}
			tbk := io.NewTimeBucketKey(b.Key)
			csm.AddColumnSeries(*tbk, cs)
		}
		return Obs{"err": errStr(c.In.Writer.WriteCSM(csm, o.Var))}
	}
	// the RPC path: one NumpyMultiDataset, as a client would send it
	var nmds *io.NumpyMultiDataset
	for _, b := range o.Buckets {
		cs, err := ToCS(b.Cols)
		if err != nil {
			return Obs{"err": err.Error(), "driver_error": true}
		}
		tbk := io.NewTimeBucketKey(b.Key)
		if nmds == nil {
			nds, err := io.NewNumpyDataset(cs)
			if err != nil {
				return Obs{"err": err.Error(), "driver_error": true}
			}
			nmds, _ = io.NewNumpyMultiDataset(nds, *tbk)
		} else if err := nmds.Append(cs, *tbk); err != nil {
			return Obs{"err": err.Error(), "driver_error": true}
		}
	}
	var r frontend.MultiServerResponse
	err := c.In.Data.Write(nil, &frontend.MultiWriteRequest{Requests: []frontend.WriteRequest{{Data: nmds, IsVariableLength: o.Var}}}, &r)
	if err != nil {
		return Obs{"err": err.Error()}
	}
	return Obs{"err": respErr(&r)}
}

func resultObs(r *frontend.MultiQueryResponse) Obs {
	res := map[string][]OutCol{}
	for _, resp := range r.Responses {
		nmds := resp.Result
		if nmds == nil {
			continue
		}
		for tbkStr, startIndex := range nmds.StartIndex {
			cs, err := nmds.ToColumnSeries(startIndex, nmds.Lengths[tbkStr])
			if err != nil {
				return Obs{"err": "decode: " + err.Error()}
			}
			res[tbkStr] = FromCS(cs)
		}
	}
	return Obs{"err": nil, "result": res}
}

func (c *Ctx) query(o *Op) Obs {
	q := frontend.QueryRequest{Destination: o.Dest, Columns: o.Cols, Functions: o.Functions,
		LimitRecordCount: o.Limit, LimitFromStart: o.FromStart}
	if o.Start != nil {
		q.EpochStart, q.EpochStartNanos = &o.Start[0], &o.Start[1]
	}
	if o.End != nil {
		q.EpochEnd, q.EpochEndNanos = &o.End[0], &o.End[1]
	}
	var r frontend.MultiQueryResponse
	err := c.In.Data.Query(nil, &frontend.MultiQueryRequest{Requests: []frontend.QueryRequest{q}}, &r)
	if err != nil {
		return Obs{"err": err.Error()}
	}
	return resultObs(&r)
}

// FreshCatalog loads a brand-new catalog from disk, as a restart would.
func FreshCatalog(root string) Obs {
	d, err := catalog.NewDirectory(root)
	if err != nil && d == nil {
		return Obs{"err": err.Error(), "tbks": map[string][]int{}}
	}
	return memCatalog(d)
}

func memCatalog(d *catalog.Directory) Obs {
	out := map[string][]int{}
	if d == nil {
		return Obs{"err": nil, "tbks": out}
	}
	root := d.GetPath()
	fis, err := d.GatherTimeBucketInfo()
	if err != nil {
		return Obs{"err": err.Error(), "tbks": out}
	}
	for _, fi := range fis {
		rel, _ := filepath.Rel(root, filepath.Dir(fi.Path))
		out[rel] = append(out[rel], int(fi.Year))
	}
	for k := range out {
		sort.Ints(out[k])
	}
	names := catalog.ListTimeBucketKeyNames(d)
	sort.Strings(names)
	return Obs{"err": nil, "tbks": out, "names": names}
}

// Disk lists all regular files below root (relative path -> size).
func Disk(root string) Obs {
	files := map[string]int64{}
	dirs := []string{}
	_ = filepath.Walk(root, func(p string, info os.FileInfo, err error) error {
		if err != nil {
			return nil
		}
		rel, _ := filepath.Rel(root, p)
		if info.IsDir() {
			dirs = append(dirs, rel)
		} else {
			files[rel] = info.Size()
		}
		return nil
	})
	sort.Strings(dirs)
	return Obs{"files": files, "dirs": dirs}
}
