package drv

import (
	"bytes"
	"encoding/binary"
	"encoding/json"
	"os"
)

// walgrep: does the running instance's WAL file contain the little-endian int64 value?  (C07 probe)
func init() {
	Extra["walgrep"] = func(c *Ctx, o *Op) Obs {
		var x struct {
			Value int64 `json:"value"`
		}
		if err := json.Unmarshal(o.X, &x); err != nil {
			return Obs{"err": err.Error(), "driver_error": true}
		}
		b, err := os.ReadFile(c.In.WAL.FilePtr.Name())
		if err != nil {
			return Obs{"err": err.Error()}
		}
		pat := make([]byte, 8)
		binary.LittleEndian.PutUint64(pat, uint64(x.Value))
		return Obs{"found": bytes.Contains(b, pat), "size": len(b)}
	}
}
