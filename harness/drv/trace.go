package drv

import (
	"bytes"
	"encoding/json"
	"fmt"
	"strings"
	"sync"

	"github.com/alpacahq/marketstore/v4/verifhook"
)

// trace: run several op lists concurrently on the real code, free-running (nobody is parked), and record every
// hook point every goroutine passes as ONE totally ordered log (the order in which the goroutines took the
// recorder's mutex inside the hook call).  This is the input of code -> spec trace validation.
//
// An event is {n, actor, point, args}.  Actors are the named op lists; background goroutines of the server are
// named by the prefix table (first matching prefix of the first point they pass), otherwise "g<goroutine id>".
type traceSpec struct {
	Actors     map[string][]Op   `json:"actors"`
	Points     []string          `json:"points"`     // recorded points (prefix match); empty = all
	Background map[string]string `json:"background"` // point prefix -> actor name
}

type traceEvent struct {
	N     int    `json:"n"`
	Actor string `json:"actor"`
	Point string `json:"point"`
	Args  string `json:"args"`
}

func init() {
	Extra["trace"] = func(c *Ctx, o *Op) Obs {
		var sp traceSpec
		d := json.NewDecoder(bytes.NewReader(o.X))
		d.UseNumber()
		if err := d.Decode(&sp); err != nil {
			return Obs{"err": "bad trace spec: " + err.Error(), "driver_error": true}
		}
		var mu sync.Mutex
		byGid := map[int64]string{}
		var events []traceEvent
		want := func(point string) bool {
			if len(sp.Points) == 0 {
				return true
			}
			for _, p := range sp.Points {
				if strings.HasPrefix(point, p) {
					return true
				}
			}
			return false
		}
		verifhook.Set(func(point string, args ...interface{}) {
			NoteHook(point)
			if !want(point) {
				return
			}
			g := gid()
			mu.Lock()
			a, ok := byGid[g]
			if !ok {
				for pre, name := range sp.Background {
					if strings.HasPrefix(point, pre) {
						a, ok = name, true
						break
					}
				}
				if !ok {
					a = fmt.Sprintf("g%d", g)
				}
				byGid[g] = a
			}
			events = append(events, traceEvent{N: len(events) + 1, Actor: a, Point: point, Args: fmt.Sprint(args...)})
			mu.Unlock()
		})
		defer verifhook.Set(func(point string, args ...interface{}) { NoteHook(point) })
		var wg sync.WaitGroup
		out := map[string][]Obs{}
		var omu sync.Mutex
		for name, ops := range sp.Actors {
			wg.Add(1)
			go func(name string, ops []Op) {
				defer wg.Done()
				mu.Lock()
				byGid[gid()] = name
				mu.Unlock()
				var obs []Obs
				for i := range ops {
					mu.Lock()
					events = append(events, traceEvent{N: len(events) + 1, Actor: name, Point: "op.begin", Args: fmt.Sprint(i)})
					mu.Unlock()
					ob := c.Exec(&ops[i])
					st := "ok"
					if ob["panic"] != nil {
						st = "panic"
					} else if ob["err"] != nil {
						st = "err"
					}
					mu.Lock()
					events = append(events, traceEvent{N: len(events) + 1, Actor: name, Point: "op.end", Args: fmt.Sprintf("%d %s", i, st)})
					mu.Unlock()
					obs = append(obs, ob)
				}
				omu.Lock()
				out[name] = obs
				omu.Unlock()
			}(name, ops)
		}
		wg.Wait()
		mu.Lock()
		ev := append([]traceEvent{}, events...)
		mu.Unlock()
		return Obs{"events": ev, "actors": out}
	}
}
