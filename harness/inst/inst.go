// Package inst starts a real marketstore instance inside the harness process
// through the server's own dependency-injection container.
package inst

import (
	"os"
	"time"

	"github.com/alpacahq/marketstore/v4/catalog"
	"github.com/alpacahq/marketstore/v4/executor"
	"github.com/alpacahq/marketstore/v4/frontend"
	"github.com/alpacahq/marketstore/v4/plugins/trigger"
	"github.com/alpacahq/marketstore/v4/sqlparser"
	"github.com/alpacahq/marketstore/v4/utils"
	"github.com/alpacahq/marketstore/v4/utils/log"
	"github.com/alpacahq/marketstore/v4/verifhook/diexport"
)

type Opts struct {
	BackgroundSync bool // start SyncWAL through the container (500ms / 5min periods)
	WALBypass      bool
	RotateInterval int
	Triggers       []*trigger.Matcher
	Timezone       *time.Location
	Verbose        bool
	NoCompression  bool
}

type Instance struct {
	Root   string
	Cat    *catalog.Directory
	WAL    *executor.WALFileType
	Writer frontend.Writer
	Query  *frontend.QueryService
	Data   *frontend.DataService
	Grpc   *frontend.GRPCService
	Agg    *sqlparser.AggRunner
	Meta   *executor.InstanceMetadata
}

// Start runs the same start-up path as `marketstore start`
// (cmd/start/main.go): container, trigger dispatcher, catalog, WAL file with
// clean-up and replay of leftover WAL files.
func Start(root string, o Opts) *Instance {
	if !o.Verbose {
		log.SetLevel(log.FATAL + 1)
	}
	cfg := utils.NewDefaultConfig(root)
	cfg.BackgroundSync = o.BackgroundSync
	cfg.WALBypass = o.WALBypass
	cfg.InitCatalog = true
	cfg.InitWALCache = true
	cfg.DisableVariableCompression = o.NoCompression
	if o.RotateInterval > 0 {
		cfg.WALRotateInterval = o.RotateInterval
	}
	if o.Timezone != nil {
		cfg.Timezone = o.Timezone
	} else {
		cfg.Timezone = time.UTC
	}
	utils.InstanceConfig = *cfg
	_ = os.MkdirAll(root, 0o770)
	c := diexport.NewContainer(cfg)
	if o.Triggers != nil {
		c.InjectTriggerMatchers(o.Triggers)
	}
	c.GetStartTriggerPluginDispatcher()
	meta := executor.NewInstanceSetup(c.GetCatalogDir(), c.GetInitWALFile())
	in := &Instance{Root: c.GetAbsRootDir(), Cat: meta.CatalogDir, WAL: meta.WALFile, Meta: meta}
	in.Writer = c.GetWriter()
	in.Query = c.GetHTTPService()
	in.Agg = c.GetAggRunner()
	in.Data = frontend.NewDataService(in.Root, in.Cat, in.Agg, in.Writer, in.Query)
	in.Grpc = frontend.NewGRPCService(in.Root, in.Cat, in.Agg, in.Writer, in.Query)
	return in
}
