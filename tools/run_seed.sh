#!/bin/bash
# usage: run_seed.sh <patch.diff> <tier> <prop> [<prop>...]   - runs the registered checks against a scratch worktree of /repo with the patch applied
PATCH=$(readlink -f $1); TIER=$2; shift 2
WT=/dev/shm/seedrun_$$
git -C /repo worktree add --detach $WT HEAD >/dev/null 2>&1 || exit 2
( cd $WT && (git apply --3way $PATCH >/dev/null 2>&1 || git apply $PATCH) ) || { echo "patch does not apply"; git -C /repo worktree remove --force $WT; exit 2; }
for p in "$@"; do
  S=$(date +%s)
  OUT=$(VERIF_REPO=$WT VERIF_EVID=/dev/shm/seedrun_evid_$$ python3 /verif/tools/check.py $p --tier $TIER 2>&1); RC=$?
  echo "== $p rc=$RC t=$(( $(date +%s)-S ))s"; echo "$OUT" | grep -E "^(VIOLATION|UNDECIDED|OK|  )" | head -6 | cut -c1-400
done
git -C /repo worktree remove --force $WT >/dev/null 2>&1; rm -rf $WT /dev/shm/seedrun_evid_$$
