#!/usr/bin/env python3
"""keep_seed.py <ID> [note]  - copy a confirmed seeded change from /tmp/seed/out_<ID> into /verif/seeded/<ID>/ with a meta.json
that records what it breaks, what it needs, what was run to confirm it and which registered checks report it."""
import json, os, re, shutil, subprocess, sys, glob
ID = sys.argv[1]
note = sys.argv[2] if len(sys.argv) > 2 else ""
src = "/tmp/seed/out_%s" % ID
dst = "/verif/seeded/%s" % ID
os.makedirs(dst, exist_ok=True)
shutil.copy(os.path.join(src, "patch.diff"), dst)
for f in glob.glob(os.path.join(src, "demo", "*")):
    shutil.copy(f, dst)
m = json.load(open(os.path.join(src, "meta.json")))
conf = open(os.path.join(src, "confirm.log")).read() if os.path.exists(os.path.join(src, "confirm.log")) else ""
detected = {}
for rd in ("/tmp/seed/results", "/tmp/seed/results2", "/tmp/seed/results3", "/tmp/seed/results6", "/tmp/seed/results7", "/tmp/seed/results8", "/tmp/seed/results9", "/tmp/seed/results10"):
    f = os.path.join(rd, ID + ".txt")
    if os.path.exists(f):
        for mm in re.finditer(r"== (C\d+) rc=(\d+) t=(\d+)s", open(f).read()):
            detected[mm.group(1)] = {"exit": int(mm.group(2)), "seconds_under_load": int(mm.group(3))}
for extra in sys.argv[3:]:
    p, rc = extra.split("=")
    detected[p] = {"exit": int(rc)}
head = subprocess.run(["git", "-C", "/repo", "log", "--format=%h", "-1"], stdout=subprocess.PIPE, text=True).stdout.strip()
out = {
    "id": ID,
    "property": m.get("property", ID)[:3],
    "breaks": m.get("summary"),
    "needs_to_manifest": m.get("needs"),
    "demonstration": {"file": os.path.basename(m.get("demo_place", "")), "place_in_repo": m.get("demo_place"), "command": re.sub(r"^cd [^&;]*(&&|;)\s*", "", m.get("demo_cmd", ""))},
    "written_by": "independent sub-agent given only the property text and a scratch worktree",
    "confirmed_by_me": {"how": "tools/confirm_seed.sh: scratch worktree of /repo, patch applied, go build ./..., full existing suite (contrib/gdaxfeeder excluded: needs network) with the patch, demonstration with the patch (must fail) and without (must pass)",
                        "log_tail": conf[-600:], "repo_commit": head},
    "checks_run_against_it": detected,
    "caught_by": sorted(p for p, d in detected.items() if d["exit"] == 1),
    "note": note,
}
json.dump(out, open(os.path.join(dst, "meta.json"), "w"), indent=1)
print(ID, "caught_by", out["caught_by"], "run", {p: d["exit"] for p, d in detected.items()})
