#!/usr/bin/env python3
"""Entry point of every registered check:  python3 tools/check.py <property id> --tier quick|thorough
exit 0 = property held on everything explored (KNOWN-FINDING lines for listed findings),
exit 1 = VIOLATION line(s), exit 2 = the machinery could not decide (never a violation)."""
import argparse, importlib, json, os, sys, traceback

HERE = os.path.dirname(os.path.abspath(__file__))
sys.path.insert(0, HERE)
sys.path.insert(0, os.path.join(os.path.dirname(HERE), "checks"))
import vlib

def discover():
    """checks/<family>.py declares PROPS = [...] (and CLAIMS for the manifest); only READY modules are used."""
    out = {}
    cdir = os.path.join(os.path.dirname(HERE), "checks")
    for f in sorted(os.listdir(cdir)):
        if not f.endswith(".py") or f.startswith("_"):
            continue
        txt = open(os.path.join(cdir, f)).read()
        import re
        m = re.search(r"^PROPS\s*=\s*(\[.*?\])", txt, re.M | re.S)
        if m:
            for p in json.loads(m.group(1).replace("'", '"')):
                out[p] = f[:-3]
    return out


MODULE_OF = discover()


def main():
    ap = argparse.ArgumentParser()
    ap.add_argument("prop", nargs="?")
    ap.add_argument("--tier", default=os.environ.get("VERIF_TIER", "quick"))
    ap.add_argument("--setup", action="store_true")
    ap.add_argument("--replay")
    a = ap.parse_args()
    try:
        if a.setup:
            vlib.build_harness()
            return 0
        if a.replay:
            rp = json.load(open(a.replay))
            mod = importlib.import_module(MODULE_OF[rp["property"]])
            return mod.replay(rp)
        if a.prop not in MODULE_OF:
            print("no check for", a.prop)
            return 2
        mod = importlib.import_module(MODULE_OF[a.prop])
        return mod.run(a.prop, a.tier)
    except vlib.Undecided as e:
        print("UNDECIDED property=%s: %s" % (a.prop, e))
        return 2
    except Exception:
        traceback.print_exc()
        print("UNDECIDED property=%s: internal error in the checking machinery" % a.prop)
        return 2


if __name__ == "__main__":
    sys.exit(main())
