"""Abstraction of recorded system calls into actions of spec/Wal.tla (trace validation, E3).

WAL bytes are decoded into fragments (STATUS / TXNINFO / TGDATA message id, length, body, checksum), primary-file
writes into fixed-slot writes, variable data blobs (snappy-decoded into records) and index triples.  The mapping
bytes -> (file id, slot, record id) uses the workload's concretisation (walcrash.Conc)."""
import struct
from vlib import Undecided

HEADERSIZE = 37024


def snappy_decode(b):
    """raw snappy block format"""
    n = 0
    shift = 0
    i = 0
    while True:
        if i >= len(b):
            raise ValueError("snappy: bad varint")
        c = b[i]
        i += 1
        n |= (c & 0x7f) << shift
        if c < 0x80:
            break
        shift += 7
    out = bytearray()
    while i < len(b):
        tag = b[i]
        i += 1
        t = tag & 3
        if t == 0:
            ln = tag >> 2
            if ln >= 60:
                k = ln - 59
                ln = int.from_bytes(b[i:i + k], "little")
                i += k
            ln += 1
            out += b[i:i + ln]
            i += ln
        else:
            if t == 1:
                ln = 4 + ((tag >> 2) & 7)
                off = ((tag >> 5) << 8) | b[i]
                i += 1
            elif t == 2:
                ln = 1 + (tag >> 2)
                off = int.from_bytes(b[i:i + 2], "little")
                i += 2
            else:
                ln = 1 + (tag >> 2)
                off = int.from_bytes(b[i:i + 4], "little")
                i += 4
            if off == 0 or off > len(out):
                raise ValueError("snappy: bad offset")
            for _ in range(ln):
                out.append(out[-off])
    if len(out) != n:
        raise ValueError("snappy: length mismatch")
    return bytes(out)


def parse_tg_body(body):
    """-> (tgid, [dict(rt, path, datalen, varreclen, offset, index, data)])"""
    tgid, cnt = struct.unpack_from("<qq", body, 0)
    cur = 16
    cmds = []
    for _ in range(cnt):
        rt = struct.unpack_from("<b", body, cur)[0]
        cur += 1
        fplen = struct.unpack_from("<h", body, cur)[0]
        cur += 2
        path = body[cur:cur + fplen].decode()
        cur += fplen
        datalen, varreclen = struct.unpack_from("<ii", body, cur)
        cur += 8
        offset, index = struct.unpack_from("<qq", body, cur)
        cur += 16
        data = body[cur:cur + datalen]
        cur += datalen
        ndsv = body[cur]
        cur += 1
        for _ in range(ndsv):
            nl = body[cur]
            cur += 1 + nl + 1
        cmds.append(dict(rt=rt, path=path, datalen=datalen, varreclen=varreclen, offset=offset, index=index, data=data))
    return tgid, cmds


class Abstractor:
    """events (walrec) of ONE server run -> list of abstract events, each with 'src' = index of the source event"""

    def __init__(self, conc, meta):
        self.conc = conc
        self.meta = meta
        # (symbol dir, year) -> file id
        self.by_path = {}
        for f, (sym, y) in conc.file.items():
            self.by_path["%s/%s/G/%d.bin" % (sym, conc.tf, y)] = f
        self.tgrank = {}
        self.base = {}     # variable file id -> data-area start (file size at creation)

    def slot_of_index(self, f, index):
        pos = index - 1 if self.conc.tf != "1D" else index
        for s, p in self.conc.slotpos.items():
            if p == pos:
                return s
        raise Undecided("index %d of %s is not a workload slot" % (index, f))

    def rank(self, tgid):
        if tgid not in self.tgrank:
            self.tgrank[tgid] = len(self.tgrank) + 1
        return self.tgrank[tgid]

    def cmd_abs(self, c):
        f = self.by_path.get(c["path"])
        if f is None:
            raise Undecided("WAL command for unknown file %s" % c["path"])
        s = self.slot_of_index(f, c["index"])
        if c["rt"] == 0 or not f.startswith("V"):   # io.FIXED
            recs = [struct.unpack_from("<i", c["data"], 0)[0]]
        else:
            vrl = c["varreclen"]
            recs = [struct.unpack_from("<i", c["data"], k * vrl)[0] for k in range(len(c["data"]) // vrl)]
        return {"f": f, "s": s, "recs": recs}

    def run(self, events):
        out = []
        walpath = None
        walstate = "idle"     # expecting: idle | len | body | ck
        bodylen = 0
        pending_issue = None  # index in out of an issue event still collecting its cmds (until its ack)
        pending_flush = None  # index in out of a flush event still lacking its size
        after_trunc = False
        status_idx = None
        cur_op = None         # ("req", n) / ("ckpt", None) while inside a driver op
        ckpt_wrote = False
        for i, e in enumerate(events):
            k = e["k"]
            if k == "mark":
                parts = e["text"].split()
                if len(parts) < 5 or parts[2] not in ("issue", "done"):
                    continue
                what, opidx = parts[2], int(parts[4])
                kind, n = self.meta[opidx]
                if kind == "req":
                    if what == "issue":
                        out.append({"e": "issue", "req": n, "cmds": [], "src": i})
                        pending_issue = len(out) - 1
                    else:
                        pending_issue = None
                        if parts[5] == "ok":
                            out.append({"e": "ack", "req": n, "src": i})
                elif kind == "ckpt":
                    cur_op = "ckpt" if what == "issue" else None
                continue
            if k == "creat" and e["path"].startswith("WALFile") and walpath is None:
                walpath = e["path"]
                continue
            if k == "trunc" and e["path"] in self.by_path:
                f = self.by_path[e["path"]]
                if f.startswith("V") and f not in self.base:
                    self.base[f] = e["size"]
                continue
            if k == "sync":
                out.append({"e": "sync", "src": i})
                continue
            if k == "fsync" and e["path"] == walpath:
                if status_idx is not None:
                    out[status_idx]["synced"] = True      # WriteStatus = seek 0, write, fsync, seek end
                    status_idx = None
                    continue
                out.append({"e": "walfsync", "src": i})
                continue
            if k == "trunc" and e["path"] == walpath:
                out.append({"e": "waltrunc", "size": e["size"], "src": i})
                after_trunc = True
                continue
            if k != "write":
                continue
            p, data, off = e["path"], e["data"], e["off"]
            if p == walpath:
                if walstate == "len":
                    bodylen = struct.unpack("<q", data)[0]
                    walstate = "body"
                    out.append({"e": "wal", "frag": {"k": "LEN", "id": None}, "src": i})
                    continue
                if walstate == "body":
                    if len(data) != bodylen:
                        raise Undecided("WAL body length mismatch")
                    tgid, cmds = parse_tg_body(data)
                    rid = self.rank(tgid)
                    acmds = [self.cmd_abs(c) for c in cmds]
                    # the LEN fragment just before belongs to this TG
                    out[-1]["frag"]["id"] = rid
                    out.append({"e": "wal", "frag": {"k": "BODY", "id": rid, "cmds": acmds}, "src": i})
                    if pending_issue is not None:
                        out[pending_issue]["cmds"] = out[pending_issue]["cmds"] + acmds
                    if pending_flush is not None:
                        out[pending_flush]["n"] = len(acmds)
                        pending_flush = None
                    self.last_body_id = rid
                    walstate = "ck"
                    continue
                if walstate == "ck":
                    out.append({"e": "wal", "frag": {"k": "CK", "id": self.last_body_id}, "src": i})
                    walstate = "idle"
                    continue
                if len(data) == 11 and data[0] == 2:
                    kind = "rotstatus" if after_trunc else "status"
                    after_trunc = False
                    out.append({"e": kind, "fs": data[1], "rs": data[2], "off": off, "src": i})
                    status_idx = len(out) - 1
                    continue
                if len(data) == 11 and data[0] == 1:
                    tid = struct.unpack_from("<q", data, 1)[0]
                    d, st = data[9], data[10]
                    if d == 1 and st == 0:
                        out.append({"e": "ckpt", "src": i})
                    if d == 0 and st == 0:
                        out.append({"e": "flush", "n": 0, "src": i})
                        pending_flush = len(out) - 1
                    out.append({"e": "wal", "frag": {"k": "TI", "id": self.rank(tid), "d": "WAL" if d == 0 else "CKPT",
                                                     "st": {0: "PREP", 1: "INTENDED", 2: "DONE"}[st]}, "src": i})
                    continue
                if len(data) == 1 and data[0] == 0:
                    out.append({"e": "wal", "frag": {"k": "MID"}, "src": i})
                    walstate = "len"
                    continue
                raise Undecided("unrecognised WAL write of %d bytes at %d" % (len(data), off))
            f = self.by_path.get(p)
            if f is None:
                continue    # catalog files, other WAL files: not modelled
            if not f.startswith("V"):
                if off < HEADERSIZE:
                    continue    # header
                index = struct.unpack_from("<q", data, 0)[0]
                v = struct.unpack_from("<i", data, 8)[0]
                out.append({"e": "fix", "f": f, "s": self.slot_of_index(f, index), "v": v, "src": i})
                continue
            if off < HEADERSIZE:
                continue
            base = self.base.get(f)
            if base is None:
                raise Undecided("variable file %s written before its creation was seen" % f)
            if off >= base:
                try:
                    raw = snappy_decode(data)
                except ValueError as ex:
                    raise Undecided("cannot decode blob written by the server: %s" % ex)
                recs = [struct.unpack_from("<i", raw, k * 8)[0] for k in range(len(raw) // 8)]
                out.append({"e": "dat", "f": f, "off": off - base + 1, "len": len(data), "recs": recs, "src": i})
            else:
                index, doff, dlen = struct.unpack("<qqq", data)
                out.append({"e": "idx", "f": f, "s": self.slot_of_index(f, index), "off": doff - base + 1, "len": dlen, "src": i})
        return out
