#!/bin/bash
# usage: confirm_seed.sh <ID> <outdir with patch.diff demo/ meta.json>
# Confirms in a scratch worktree of /repo (HEAD): patch applies, builds, existing suite passes with it,
# the demonstration fails with it and passes without it.  Writes <outdir>/confirm.log and prints a one-line verdict.
ID=$1; OUT=$2
export GOFLAGS=-mod=mod GOPROXY=off GOSUMDB=off GOTOOLCHAIN=local
WT=/dev/shm/confirm_$ID
git -C /repo worktree remove --force $WT >/dev/null 2>&1; rm -rf $WT
git -C /repo worktree add --detach $WT HEAD >/dev/null 2>&1 || { echo "$ID worktree-failed"; exit 2; }
LOG=$OUT/confirm.log; : > $LOG
cd $WT
git apply --3way $OUT/patch.diff >>$LOG 2>&1 || git apply $OUT/patch.diff >>$LOG 2>&1 || { echo "$ID patch-does-not-apply"; git -C /repo worktree remove --force $WT; exit 2; }
PLACE=$(python3 -c "import json;print(json.load(open('$OUT/meta.json'))['demo_place'])")
CMD=$(python3 -c "import json,re;print(re.sub(r'^cd [^&;]*(&&|;)\s*','',json.load(open('$OUT/meta.json'))['demo_cmd']))")
go build ./... >>$LOG 2>&1 || { echo "$ID build-fails"; exit 2; }
echo "== suite with patch (demo absent)" >>$LOG
go test -p 6 -vet=off -count=1 -timeout 25m $(go list ./... | grep -v contrib/gdaxfeeder) > $OUT/suite.log 2>&1
# a package that fails is run once more on its own (contrib/ice/reorg has a rare 'concurrent map writes' of its own under load)
for pkg in $(grep -E "^FAIL\s+github.com" $OUT/suite.log | awk '{print $2}'); do
  if go test -vet=off -count=1 -timeout 25m $pkg >> $OUT/suite_retry.log 2>&1; then sed -i "\|^FAIL\s*$pkg|d" $OUT/suite.log; echo "retry of $pkg passed" >> $LOG; fi
done
SUITE_FAILS=$(grep -E "^(FAIL\s+github|panic:)" $OUT/suite.log | tr '\n' ' ')
echo "suite failures (excluding gdaxfeeder): [$SUITE_FAILS]" >>$LOG
DEMOFILE=$(ls $OUT/demo/*.go | head -1)
mkdir -p $(dirname $PLACE); cp $DEMOFILE $PLACE
echo "== demo with patch: $CMD" >>$LOG
( eval "$CMD" ) > $OUT/demo_with.log 2>&1; RC_WITH=$?
git apply -R $OUT/patch.diff >>$LOG 2>&1 || { git checkout -- . ; cp $DEMOFILE $PLACE; }
echo "== demo without patch" >>$LOG
( eval "$CMD" ) > $OUT/demo_without.log 2>&1; RC_WITHOUT=$?
echo "rc_with=$RC_WITH rc_without=$RC_WITHOUT" >>$LOG
cd /; git -C /repo worktree remove --force $WT >/dev/null 2>&1; rm -rf $WT
if [ -z "$SUITE_FAILS" ] && [ $RC_WITH -ne 0 ] && [ $RC_WITHOUT -eq 0 ]; then echo "$ID CONFIRMED"; else echo "$ID NOT-CONFIRMED suite=[$SUITE_FAILS] with=$RC_WITH without=$RC_WITHOUT"; fi
