"""Recording real executions with strace, and rebuilding crash images from the recorded system calls.

An execution of the Go driver (which runs the real marketstore code) is traced with
  strace -f -y -xx -s <big> -e trace=<file-mutating syscalls + markers>
Every file-mutating system call below the data root becomes an event, in the total order of the strace log;
workload markers (issue / done of each driver op, hook events) are writes to a dedicated marker file and
therefore appear in the same log in program order - no wall-clock merging anywhere.

Events: dict(n, pid, k) with k in
  creat(path)  write(path, off, data)  trunc(path, size)  fsync(path)  sync()  unlink(path)  rename(path, to)
  mkdir(path)  rmdir(path)  mark(text)
Paths are relative to the root.
"""
import json, os, re, shutil, subprocess
import vlib
from vlib import Undecided

TRACE = ("openat,write,pwrite64,read,pread64,ftruncate,fsync,fdatasync,sync,syncfs,rename,renameat,renameat2,"
         "unlink,unlinkat,mkdir,mkdirat,rmdir,lseek,close,fallocate,dup,dup2,dup3")

_hex = re.compile(r"\\x([0-9a-f]{2})")


def unhex(s):
    """strace -xx string body (without quotes) -> bytes"""
    return bytes(int(h, 16) for h in _hex.findall(s))


def _split_args(s):
    """split a syscall argument string at top-level commas (strings contain only \\xHH, <...> fd annotations)"""
    out, depth, cur, inq = [], 0, [], False
    for ch in s:
        if ch == '"':
            inq = not inq
        if not inq:
            if ch in "<([{":
                depth += 1
            elif ch in ">)]}":
                depth -= 1
            elif ch == "," and depth == 0:
                out.append("".join(cur).strip())
                cur = []
                continue
        cur.append(ch)
    if cur:
        out.append("".join(cur).strip())
    return out


def _fd(arg):
    m = re.match(r"(-?\d+)<(.*)>$", arg)
    if not m:
        return int(arg) if re.match(r"-?\d+$", arg) else None, None
    return int(m.group(1)), unhex(m.group(2)).decode("utf-8", "replace")


def _str(arg):
    m = re.match(r'"(.*)"(\.\.\.)?$', arg)
    if not m:
        return None
    return unhex(m.group(1))


def parse_strace(path, root, markfile):
    """-> list of events for files under root (and marker writes)"""
    root = os.path.realpath(root)
    pending = {}
    calls = []
    for raw in open(path, errors="replace"):
        raw = raw.rstrip("\n")
        m = re.match(r"(\d+)\s+(.*)$", raw)
        if not m:
            continue
        pid, rest = int(m.group(1)), m.group(2)
        if rest.endswith("<unfinished ...>"):
            pending[pid] = rest[:-len("<unfinished ...>")]
            continue
        m2 = re.match(r"<\.\.\. (\w+) resumed>(.*)$", rest)
        if m2:
            rest = pending.pop(pid, "") + m2.group(2)
        if rest.startswith("+++") or rest.startswith("---"):
            continue
        m3 = re.match(r"(\w+)\((.*)\)\s+=\s+(-?\d+|\?)(.*)$", rest)
        if not m3:
            continue
        calls.append((pid, m3.group(1), m3.group(2), m3.group(3)))
    # NOTE: the order of `calls` is the order of completion lines in the strace log.
    events = []
    offs = {}      # (fd-identity) -> offset ; fds are shared by all threads of the process, -f children are threads here
    n = 0

    def rel(p):
        if p is None:
            return None
        p = os.path.normpath(p)
        if p == root:
            return "."
        if p.startswith(root + "/"):
            return p[len(root) + 1:]
        return None

    def ev(pid, k, **kw):
        nonlocal n
        n += 1
        e = dict(n=n, pid=pid, k=k)
        e.update(kw)
        events.append(e)

    for pid, name, argstr, ret in calls:
        if ret == "?":
            continue
        ret = int(ret)
        a = _split_args(argstr)
        if name == "openat":
            p = _str(a[1])
            if p is None or ret < 0:
                continue
            p = p.decode("utf-8", "replace")
            if not p.startswith("/"):
                _, base = _fd(a[0])
                if base:
                    p = os.path.join(base, p)
            flags = a[2]
            offs[ret] = 0
            r = rel(p)
            if r is not None and ("O_CREAT" in flags or "O_TRUNC" in flags):
                ev(pid, "creat", path=r, trunc=("O_TRUNC" in flags), excl=("O_EXCL" in flags))
            continue
        if name in ("write", "pwrite64"):
            fd, p = _fd(a[0])
            if ret < 0:
                continue
            data = _str(a[1])
            if p == markfile:
                ev(pid, "mark", text=(data or b"").decode("utf-8", "replace").strip())
                continue
            r = rel(p)
            if name == "write":
                off = offs.get(fd, 0)
                offs[fd] = off + ret
            else:
                off = int(a[3])
            if r is not None:
                if data is None or len(data) < ret:
                    raise Undecided("strace truncated a write of %d bytes to %s" % (ret, r))
                ev(pid, "write", path=r, off=off, data=data[:ret])
            continue
        if name in ("read",):
            fd, p = _fd(a[0])
            if ret > 0:
                offs[fd] = offs.get(fd, 0) + ret
            continue
        if name == "lseek":
            fd, p = _fd(a[0])
            if ret >= 0:
                offs[fd] = ret
            continue
        if name == "close":
            fd, p = _fd(a[0])
            offs.pop(fd, None)
            continue
        if name in ("dup", "dup2", "dup3"):
            continue
        if name == "ftruncate":
            fd, p = _fd(a[0])
            r = rel(p)
            if r is not None and ret == 0:
                ev(pid, "trunc", path=r, size=int(a[1]))
            continue
        if name == "fallocate":
            fd, p = _fd(a[0])
            r = rel(p)
            if r is not None and ret == 0:
                ev(pid, "trunc", path=r, size=int(a[2]) + int(a[3]), grow_only=True)
            continue
        if name in ("fsync", "fdatasync"):
            fd, p = _fd(a[0])
            r = rel(p)
            if r is not None and ret == 0:
                ev(pid, "fsync", path=r)
            continue
        if name in ("sync", "syncfs"):
            ev(pid, "sync")
            continue
        if name in ("unlink", "unlinkat", "rmdir"):
            if ret != 0:
                continue
            if name == "unlinkat":
                p = _str(a[1]).decode("utf-8", "replace")
                if not p.startswith("/"):
                    _, base = _fd(a[0])
                    p = os.path.join(base or "", p)
                isdir = "AT_REMOVEDIR" in a[2]
            else:
                p = _str(a[0]).decode("utf-8", "replace")
                isdir = name == "rmdir"
            r = rel(p)
            if r is not None:
                ev(pid, "rmdir" if isdir else "unlink", path=r)
            continue
        if name in ("mkdir", "mkdirat"):
            if ret != 0:
                continue
            if name == "mkdirat":
                p = _str(a[1]).decode("utf-8", "replace")
                if not p.startswith("/"):
                    _, base = _fd(a[0])
                    p = os.path.join(base or "", p)
            else:
                p = _str(a[0]).decode("utf-8", "replace")
            r = rel(p)
            if r is not None:
                ev(pid, "mkdir", path=r)
            continue
        if name in ("rename", "renameat", "renameat2"):
            if ret != 0:
                continue
            if name == "rename":
                p1, p2 = _str(a[0]).decode(), _str(a[1]).decode()
            else:
                p1, p2 = _str(a[1]).decode(), _str(a[3]).decode()
                if not p1.startswith("/"):
                    p1 = os.path.join(_fd(a[0])[1] or "", p1)
                if not p2.startswith("/"):
                    p2 = os.path.join(_fd(a[2])[1] or "", p2)
            r1, r2 = rel(p1), rel(p2)
            if r1 is not None or r2 is not None:
                ev(pid, "rename", path=r1, to=r2)
            continue
    return events


def record(binary, cases, root, tag="rec", timeout=300, extra_env=None):
    """Run the driver on `cases` under strace.  Returns (events, observations)."""
    d = vlib.scratch()
    import random
    base = os.path.join(d, "%s.%d" % (tag, random.getrandbits(32)))
    fin, fout, flog, fmark = base + ".in", base + ".out", base + ".strace", base + ".mark"
    with open(fin, "w") as f:
        for c in cases:
            f.write(json.dumps(c) + "\n")
    open(fmark, "w").close()
    env = dict(vlib.GOENV)
    env["VERIF_MARK_FILE"] = fmark
    if extra_env:
        env.update(extra_env)
    cmd = ["strace", "-f", "-y", "-xx", "-s", "4000000", "-o", flog, "-e", "trace=" + TRACE,
           binary, "cases", "--in", fin, "--out", fout]
    try:
        p = subprocess.run(cmd, env=env, stdout=subprocess.PIPE, stderr=subprocess.PIPE, timeout=timeout)
    except subprocess.TimeoutExpired:
        raise Undecided("recording timed out")
    obs = {}
    if os.path.exists(fout):
        for line in open(fout):
            try:
                r = json.loads(line)
            except ValueError:
                continue
            if "id" in r:
                obs[json.dumps(r["id"])] = r["obs"]
    events = parse_strace(flog, root, fmark)
    for f in (fin, fout, flog, fmark):
        if os.path.exists(f):
            os.unlink(f)
    return events, obs, p.returncode


# ------------------------------------------------------------------------------------------------
# crash images
# ------------------------------------------------------------------------------------------------
PAGE = 4096


class SparseFile:
    """file content as size + dict page-number -> bytes(PAGE); absent pages are zeros"""
    __slots__ = ("size", "pages")

    def __init__(self, size=0, pages=None):
        self.size = size
        self.pages = pages if pages is not None else {}

    def copy(self):
        return SparseFile(self.size, dict(self.pages))  # page contents are immutable bytes

    def write(self, off, data):
        end = off + len(data)
        if end > self.size:
            self.size = end
        pos = 0
        while pos < len(data):
            pn, po = divmod(off + pos, PAGE)
            n = min(PAGE - po, len(data) - pos)
            old = self.pages.get(pn)
            if old is None:
                old = bytes(PAGE)
            self.pages[pn] = old[:po] + bytes(data[pos:pos + n]) + old[po + n:]
            pos += n

    def truncate(self, size):
        if size < self.size:
            last = size // PAGE
            for pn in [k for k in self.pages if k > last]:
                del self.pages[pn]
            if last in self.pages:
                po = size % PAGE
                self.pages[last] = self.pages[last][:po] + bytes(PAGE - po)
        self.size = size

    def read(self, off, n):
        out = bytearray()
        end = min(off + n, self.size)
        pos = off
        while pos < end:
            pn, po = divmod(pos, PAGE)
            k = min(PAGE - po, end - pos)
            pg = self.pages.get(pn)
            out += (pg[po:po + k] if pg is not None else bytes(k))
            pos += k
        return bytes(out)

    def same(self, other):
        if self.size != other.size:
            return False
        z = bytes(PAGE)
        for pn in set(self.pages) | set(other.pages):
            if self.pages.get(pn, z) != other.pages.get(pn, z):
                return False
        return True

    def dump(self, path):
        with open(path, "wb") as f:
            f.truncate(self.size)
            z = bytes(PAGE)
            for pn in sorted(self.pages):
                pg = self.pages[pn]
                if pg != z:
                    f.seek(pn * PAGE)
                    f.write(pg[:max(0, min(PAGE, self.size - pn * PAGE))])

    @staticmethod
    def load(path):
        sf = SparseFile()
        sf.size = os.path.getsize(path)
        z = bytes(PAGE)
        with open(path, "rb") as f:
            pn = 0
            # use SEEK_DATA to skip holes where supported
            pos = 0
            while pos < sf.size:
                try:
                    pos = os.lseek(f.fileno(), pos, os.SEEK_DATA)
                except OSError:
                    break
                pos = pos // PAGE * PAGE
                f.seek(pos)
                pg = f.read(PAGE)
                if not pg:
                    break
                if len(pg) < PAGE:
                    pg = pg + bytes(PAGE - len(pg))
                if pg != z:
                    sf.pages[pos // PAGE] = pg
                pos += PAGE
        return sf


class Image:
    """An in-memory file tree: dirs (set), files (path -> SparseFile)."""

    def __init__(self):
        self.dirs = {"."}
        self.files = {}

    def copy(self):
        im = Image()
        im.dirs = set(self.dirs)
        im.files = {k: v.copy() for k, v in self.files.items()}
        return im

    def apply(self, e):
        k = e["k"]
        if k == "mkdir":
            self.dirs.add(e["path"])
        elif k == "creat":
            if e["path"] not in self.files:
                self.files[e["path"]] = SparseFile()
            elif e.get("trunc"):
                self.files[e["path"]].truncate(0)
        elif k == "write":
            if e["path"] not in self.files:
                self.files[e["path"]] = SparseFile()
            self.files[e["path"]].write(e["off"], e["data"])
        elif k == "trunc":
            if e["path"] not in self.files:
                self.files[e["path"]] = SparseFile()
            b = self.files[e["path"]]
            if e.get("grow_only") and b.size >= e["size"]:
                return
            b.truncate(e["size"])
        elif k == "unlink":
            self.files.pop(e["path"], None)
        elif k == "rmdir":
            self.dirs.discard(e["path"])
        elif k == "rename":
            if e["path"] in self.files:
                if e["to"] is not None:
                    self.files[e["to"]] = self.files.pop(e["path"])
                else:
                    self.files.pop(e["path"])
            elif e["path"] in self.dirs:
                self.dirs.discard(e["path"])
                pre = e["path"] + "/"
                if e["to"] is not None:
                    self.dirs.add(e["to"])
                for p in list(self.files):
                    if p.startswith(pre):
                        v = self.files.pop(p)
                        if e["to"] is not None:
                            self.files[e["to"] + "/" + p[len(pre):]] = v
                for p in list(self.dirs):
                    if p.startswith(pre):
                        self.dirs.discard(p)
                        if e["to"] is not None:
                            self.dirs.add(e["to"] + "/" + p[len(pre):])

    def materialise(self, dest):
        if os.path.exists(dest):
            shutil.rmtree(dest)
        os.makedirs(dest)
        for dname in sorted(self.dirs):
            os.makedirs(os.path.join(dest, dname), exist_ok=True)
        for p, b in self.files.items():
            fp = os.path.join(dest, p)
            os.makedirs(os.path.dirname(fp), exist_ok=True)
            b.dump(fp)

    @staticmethod
    def from_dir(root):
        im = Image()
        for dp, dns, fns in os.walk(root):
            r = os.path.normpath(os.path.relpath(dp, root))
            im.dirs.add(r)
            for fn in fns:
                p = os.path.normpath(os.path.join(r, fn))
                im.files[p] = SparseFile.load(os.path.join(dp, fn))
        return im

    def same_as(self, other):
        if set(self.files) != set(other.files):
            return False, "file sets differ: %s" % sorted(set(self.files) ^ set(other.files))
        for p in self.files:
            if not self.files[p].same(other.files[p]):
                return False, "content differs: %s" % p
        return True, ""


MUTATING = ("creat", "write", "trunc", "unlink", "rmdir", "rename", "mkdir")


def mutating_indices(events):
    return [i for i, e in enumerate(events) if e["k"] in MUTATING]
