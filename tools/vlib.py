"""Shared machinery for the /verif checks (python3 stdlib only).

  * build_harness()   - rebuilds the Go driver from /repo's working tree, -tags verif
  * run_tlc()         - runs TLC on spec/<module> with a cfg, returns counts and printed records
  * run_cases()       - feeds case scripts to the real code through the driver, surviving deaths
  * Evidence / Result - evidence file writer and verdict bookkeeping (VIOLATION / KNOWN-FINDING)
"""
import atexit, hashlib, json, os, random, re, shutil, subprocess, sys, threading, time

VERIF = os.path.dirname(os.path.dirname(os.path.abspath(__file__)))
REPO = os.environ.get("VERIF_REPO", "/repo")
SPEC = os.path.join(VERIF, "spec")
HARNESS = os.path.join(VERIF, "harness")
BUILD = os.path.join(VERIF, ".build")
EVID = os.environ.get("VERIF_EVID") or os.path.join(VERIF, "evidence")   # seed runs (VERIF_REPO) write their evidence elsewhere
REPLAYS = os.path.join(VERIF, "replays")

GOENV = dict(os.environ, GOFLAGS="-mod=mod", GOPROXY="off", GOSUMDB="off", GOTOOLCHAIN="local")

_scratch = None
FRONT_COUNTS = {"grpc": 0, "msgpack-rpc": 0}     # cases sent through each front end (VERIF_FRONT)


def scratch():
    """Per-process scratch directory (tmpfs when available), removed at exit."""
    global _scratch
    if _scratch is None:
        base = "/dev/shm" if os.path.isdir("/dev/shm") and os.access("/dev/shm", os.W_OK) else os.path.join(VERIF, ".scratch")
        os.makedirs(base, exist_ok=True)
        _scratch = os.path.join(base, "mktsverif.%d.%d" % (os.getpid(), int(time.time())))
        os.makedirs(_scratch, exist_ok=True)
        atexit.register(lambda: shutil.rmtree(_scratch, ignore_errors=True))
    return _scratch


class Undecided(Exception):
    """Machinery could not decide (timeout, dead driver, TLC error, drift): exit 2, never a violation."""


def seed():
    try:
        return int(os.environ.get("VERIF_SEED", "1"))
    except ValueError:
        return 1


def log(*a):
    print(*a, file=sys.stderr, flush=True)


# ----------------------------------------------------------------------------------------------
# Go driver
# ----------------------------------------------------------------------------------------------
def build_harness(race=False, cmd="mktsverif"):
    """Build harness/cmd/<cmd> against the current working tree of REPO with -tags verif.

    The harness sources are copied to the per-process scratch directory first, so that concurrent checks
    (possibly against different trees, VERIF_REPO) never disturb each other; the Go build cache keeps it fast."""
    src = os.path.join(scratch(), "harness")
    if os.path.isdir(src):
        shutil.rmtree(src)
    shutil.copytree(HARNESS, src, ignore=shutil.ignore_patterns("go.sum"))
    shutil.copyfile(os.path.join(REPO, "go.sum"), os.path.join(src, "go.sum"))
    gomod = os.path.join(src, "go.mod")
    txt = open(gomod).read()
    want = "replace github.com/alpacahq/marketstore/v4 => %s\n" % REPO
    open(gomod, "w").write(re.sub(r"replace github.com/alpacahq/marketstore/v4 => .*\n", want, txt))
    out = os.path.join(scratch(), cmd + ("-race" if race else ""))
    c = ["go", "build", "-tags", "verif"] + (["-race"] if race else []) + ["-o", out, "./cmd/" + cmd]
    t = time.time()
    p = subprocess.run(c, cwd=src, env=GOENV, stdout=subprocess.PIPE, stderr=subprocess.STDOUT, text=True)
    if p.returncode != 0:
        # a tree that does not compile is not a property violation
        raise Undecided("harness build failed:\n" + p.stdout[-4000:])
    log("[build] %s in %.1fs" % (os.path.basename(out), time.time() - t))
    return out


MEM_LIMIT_GB = float(os.environ.get("VERIF_MEM_GB", "24"))


def _mem_watchdog(p, memkill):
    """kills the driver when its resident set exceeds MEM_LIMIT_GB (a seeded defect made one driver grow to 56 GB)"""
    path = "/proc/%d/status" % p.pid
    while p.poll() is None:
        try:
            for line in open(path):
                if line.startswith("VmRSS:"):
                    gb = int(line.split()[1]) / 1048576.0
                    if gb > MEM_LIMIT_GB:
                        memkill.append(gb)
                        p.kill()
                        return
                    break
        except (OSError, ValueError, IndexError):
            return
        time.sleep(0.5)


def run_cases(binary, cases, timeout=600, env=None, per_case_timeout=None, tag="cases", stderr_tail=3000):
    """Run case scripts [{'id':..,'ops':[..]}] through the driver.

    Returns {id_json: obs_list | {'died': exit_status, 'stderr': tail}}.  If the driver process dies
    (log.Fatal, fatal runtime error, os.Exit) the case that had begun is marked 'died' and the run
    continues with the next case in a new process."""
    d = scratch()
    fin = os.path.join(d, "%s.%d.in" % (tag, random.getrandbits(32)))
    fout = fin[:-3] + ".out"
    # VERIF_FRONT=grpc: every request op goes through the gRPC front end instead of the msgpack-RPC one;
    # VERIF_FRONT=mix: every second case does (ops the gRPC service does not offer fall through)
    front = os.environ.get("VERIF_FRONT", "")
    for i in range(len(cases)):
        FRONT_COUNTS["grpc" if (front == "grpc" or (front == "mix" and i % 2 == 1)) else "msgpack-rpc"] += 1
    if front in ("grpc", "mix"):
        cases = [dict(c, ops=[dict(o, front="grpc") if o.get("op") in ("create", "write", "query", "destroy", "list") else o for o in c["ops"]])
                 if (front == "grpc" or i % 2 == 1) else c for i, c in enumerate(cases)]
    with open(fin, "w") as f:
        for c in cases:
            f.write(json.dumps(c) + "\n")
    results = {}
    start = 0
    deaths = 0
    t_end = time.time() + timeout
    while start < len(cases):
        if os.path.exists(fout):
            os.unlink(fout)
        remaining = t_end - time.time()
        if remaining <= 0:
            raise Undecided("driver timeout after %d cases" % start)
        memkill = []
        try:
            p = subprocess.Popen([binary, "cases", "--in", fin, "--out", fout, "--from", str(start)],
                                 env=env or GOENV, stdout=subprocess.PIPE, stderr=subprocess.PIPE)
            wd = threading.Thread(target=_mem_watchdog, args=(p, memkill), daemon=True)
            wd.start()
            try:
                so, se = p.communicate(timeout=remaining)
            except subprocess.TimeoutExpired:
                p.kill()
                p.communicate()
                raise
            rc, err = p.returncode, se[-stderr_tail:].decode("utf-8", "replace")
            out_tail = so[-3000:].decode("utf-8", "replace")
        except subprocess.TimeoutExpired as e:
            rc, err, out_tail = -9, "timeout", ""
        if memkill:
            # a resource verdict is never a violation: the driver (the real code under some case) outgrew the memory budget
            raise Undecided("driver killed by the memory watchdog at %.1f GB resident (limit %s GB, VERIF_MEM_GB) after %d finished cases" % (
                memkill[0], MEM_LIMIT_GB, start))
        done = 0
        begun = None
        if os.path.exists(fout):
            for line in open(fout):
                try:
                    r = json.loads(line)
                except ValueError:
                    continue
                if "begin" in r:
                    begun = json.dumps(r["begin"])
                else:
                    results[json.dumps(r["id"])] = r["obs"]
                    done += 1
                    begun = None
        start += done
        results["_stderr"] = results.get("_stderr", "") + err
        results["_rc"] = rc
        if start >= len(cases):
            break
        # the process ended before finishing all cases
        if rc < 0 and err != "timeout":
            # killed from outside (OOM killer, an operator): a resource verdict, never a violation
            raise Undecided("driver killed by signal %d after %d finished cases" % (-rc, start))
        if begun is None:
            raise Undecided("driver ended (rc=%s) without beginning a case: %s" % (rc, err))
        results[begun] = {"died": rc, "stderr": err, "stdout": out_tail}
        start += 1
        deaths += 1
        if rc == -9:
            raise Undecided("driver hung / timed out in case %s" % begun)
    os.unlink(fin)
    if os.path.exists(fout):
        os.unlink(fout)
    return results


# ----------------------------------------------------------------------------------------------
# TLC
# ----------------------------------------------------------------------------------------------
TLC_JAR = "/opt/veriftools/tla/tla2tools.jar:/opt/veriftools/tla/CommunityModules-deps.jar"


def run_tlc(module, cfg, workers=None, simulate=None, depth=None, timeout=900, seed_=None, extra=None,
            coverage=False, heap=None, deadlock=False, cfg_text=None, files=None):
    """Run TLC on spec/<module>.tla with spec/<cfg>.  Returns dict(states, distinct, records{tag:[json]}, coverage, out).

    Records are lines printed by the spec with PrintT(<<"TAG", ToJson(x)>>)."""
    d = os.path.join(scratch(), "tlc.%d" % random.getrandbits(32))
    os.makedirs(d)
    for f in os.listdir(SPEC):
        if f.endswith(".tla") or f.endswith(".cfg") or f.endswith(".ndjson") or f.endswith(".json"):
            shutil.copy(os.path.join(SPEC, f), d)
    if cfg_text is not None:
        with open(os.path.join(d, cfg), "w") as f:
            f.write(cfg_text)
    for name, content in (files or {}).items():
        with open(os.path.join(d, name), "w") as f:
            f.write(content)
    if workers is None:
        workers = "auto"
    java = ["java", "-XX:+UseParallelGC"]
    if heap:
        java.append("-Xmx" + heap)
    java += ["-Xss64m", "-cp", TLC_JAR, "tlc2.TLC"]
    cmd = java + ["-workers", str(workers), "-metadir", os.path.join(d, "meta"), "-noGenerateSpecTE",
                  "-config", cfg]
    if not deadlock:
        cmd.append("-deadlock")
    if simulate:
        cmd += ["-simulate", "num=%d" % simulate]
    if depth:
        cmd += ["-depth", str(depth)]
    if seed_ is not None:
        cmd += ["-seed", str(seed_)]
    if coverage:
        cmd += ["-coverage", "1"]
    if extra:
        cmd += extra
    cmd.append(module)
    t = time.time()
    try:
        p = subprocess.run(cmd, cwd=d, stdout=subprocess.PIPE, stderr=subprocess.STDOUT, text=True, timeout=timeout)
    except subprocess.TimeoutExpired:
        shutil.rmtree(d, ignore_errors=True)
        raise Undecided("TLC timeout on %s/%s" % (module, cfg))
    out = p.stdout
    res = {"out": out, "rc": p.returncode, "wall_s": time.time() - t, "records": {}, "cmd": " ".join(cmd[len(java) - 1:])}
    m = re.search(r"(\d+) states generated, (\d+) distinct states found", out)
    if m:
        res["states_generated"], res["distinct"] = int(m.group(1)), int(m.group(2))
    else:
        m = re.search(r"generated (\d+) states", out)  # simulation mode progress
        res["states_generated"] = res["distinct"] = 0
    m = re.search(r"The depth of the complete state graph search is (\d+)", out)
    if m:
        res["depth"] = int(m.group(1))
    # records
    recs = res["records"]
    for line in out.splitlines():
        if line.startswith("<<\""):
            m = re.match(r'<<"([A-Z]+)", "(.*)">>$', line)
            if m:
                js = m.group(2).replace('\\"', '"').replace("\\\\", "\\")
                try:
                    recs.setdefault(m.group(1), []).append(json.loads(js))
                except ValueError:
                    recs.setdefault("BAD", []).append(line)
    res["violated"] = re.findall(r"Invariant (\S+) is violated|Action property (\S+) is violated|Temporal properties were violated", out)
    res["error"] = None
    if "Error:" in out and not res["violated"]:
        res["error"] = out[out.index("Error:"):][:2000]
    if coverage:
        # per-action counts of the LAST coverage report: <Action line .. of module M>: distinct:generated
        acts = {}
        for mm in re.finditer(r"^<(\w+) line \d+, col \d+ to line \d+, col \d+ of module (\w+)>: (\d+):(\d+)$", out, re.M):
            acts[mm.group(1)] = [int(mm.group(3)), int(mm.group(4))]
        res["action_coverage"] = acts
        res["zero_coverage"] = sorted(a for a, v in acts.items() if v[1] == 0)
    shutil.rmtree(d, ignore_errors=True)
    return res


def tlc_ok(res, what):
    if res.get("error") or res["rc"] not in (0,):
        if res["violated"]:
            return
        raise Undecided("TLC failed on %s (rc=%s): %s" % (what, res["rc"], (res.get("error") or res["out"][-2000:])))


def cfg_text(constants, invariants=(), view=None, spec="Spec", properties=(), constraint=None, action_constraint=None,
             postcondition=None, init_next=None):
    lines = ["SPECIFICATION " + spec] if not init_next else ["INIT " + init_next[0], "NEXT " + init_next[1]]
    if constants:
        lines.append("CONSTANTS")
        for k, v in constants.items():
            lines.append("  %s = %s" % (k, v))
    if view:
        lines.append("VIEW " + view)
    if constraint:
        lines.append("CONSTRAINT " + constraint)
    if action_constraint:
        lines.append("ACTION_CONSTRAINT " + action_constraint)
    if invariants:
        lines.append("INVARIANTS " + " ".join(invariants))
    if properties:
        lines.append("PROPERTIES " + " ".join(properties))
    if postcondition:
        lines.append("POSTCONDITION " + postcondition)
    return "\n".join(lines) + "\n"


# ----------------------------------------------------------------------------------------------
# verdicts and evidence
# ----------------------------------------------------------------------------------------------
def known_findings(prop):
    """open known findings of a property: known_findings.json plus fragments known_findings.d/*.json"""
    out = []
    files = [os.path.join(VERIF, "known_findings.json")]
    dd = os.path.join(VERIF, "known_findings.d")
    if os.path.isdir(dd):
        files += sorted(os.path.join(dd, f) for f in os.listdir(dd) if f.endswith(".json"))
    for p in files:
        if os.path.exists(p):
            out += [k for k in json.load(open(p))["findings"] if k["property"] == prop and k.get("status") == "open"]
    return out


class Result:
    def __init__(self, prop, tier, level="model_checking"):
        self.prop, self.tier, self.level = prop, tier, level
        self.t0 = time.time()
        self.violations = []      # (description, replay object)
        self.known = {}           # finding id -> (finding, example)
        self.cov = {"samples": [], "states": 0, "transitions": 0, "traces_validated_against_impl": 0}
        self.assumptions = []
        self.seed = seed()

    def tlc(self, res, name):
        self.cov["states"] += res.get("distinct", 0)
        self.cov["transitions"] += res.get("states_generated", 0)
        self.cov.setdefault("tlc_runs", []).append({"cfg": name, "distinct": res.get("distinct"), "generated": res.get("states_generated"),
                                                    "depth": res.get("depth"), "wall_s": round(res["wall_s"], 1), "cmd": res["cmd"]})
        if "action_coverage" in res:
            # vacuity: an action that was never taken means the invariants were never evaluated behind it
            self.cov["tlc_runs"][-1]["actions_taken"] = res["action_coverage"]
            self.cov["tlc_runs"][-1]["actions_never_taken"] = res["zero_coverage"]

    def sample(self, s, limit=5):
        if len(self.cov["samples"]) < limit:
            self.cov["samples"].append(s)

    def violation(self, desc, replay):
        self.violations.append((desc, replay))

    def known_finding(self, finding, example):
        if finding["id"] not in self.known:
            self.known[finding["id"]] = (finding, example)

    def finish(self):
        os.makedirs(EVID, exist_ok=True)
        wall = time.time() - self.t0
        if FRONT_COUNTS["grpc"]:
            self.cov["cases_by_front_end"] = dict(FRONT_COUNTS)
        ev = {"property_id": self.prop, "tier": self.tier, "seed": self.seed, "level": self.level,
              "coverage": self.cov, "assumptions": self.assumptions, "wall_s": round(wall, 2),
              "violations": len(self.violations),
              "known_findings_redemonstrated": sorted(self.known)}
        if self.cov["states"] < 1 or self.cov["transitions"] < 1:
            # the model-checking keys must be real; fall back to generic keys if no TLC run happened
            pass
        with open(os.path.join(EVID, self.prop + ".json"), "w") as f:
            json.dump(ev, f, indent=1, default=str)
        for fid, (k, ex) in sorted(self.known.items()):
            print("KNOWN-FINDING: property=%s %s: %s [e.g. %s]" % (self.prop, fid, k["what"], json.dumps(ex, default=str)[:300]))
        if self.violations:
            os.makedirs(REPLAYS, exist_ok=True)
            seen = 0
            for desc, replay in self.violations[:20]:
                h = hashlib.sha1(json.dumps(replay, sort_keys=True, default=str).encode()).hexdigest()[:12]
                path = os.path.join(REPLAYS, "%s_%s.json" % (self.prop, h))
                with open(path, "w") as f:
                    json.dump({"property": self.prop, "description": desc, "replay": replay}, f, indent=1, default=str)
                print("VIOLATION property=%s replay=%s" % (self.prop, path))
                print("  " + desc[:1000])
                seen += 1
            if len(self.violations) > seen:
                print("  ... and %d more violations" % (len(self.violations) - seen))
            return 1
        print("OK property=%s tier=%s wall=%.1fs states=%d transitions=%d impl_traces=%d" % (
            self.prop, self.tier, wall, self.cov["states"], self.cov["transitions"], self.cov["traces_validated_against_impl"]))
        return 0
