#!/usr/bin/env python3
"""Regenerates MANIFEST.json from the table below (single source of truth for what is claimed)."""
import json, os, subprocess
HERE = os.path.dirname(os.path.abspath(__file__))
VERIF = os.path.dirname(HERE)

ALL = ["C%02d" % i for i in range(1, 36)]

import importlib, sys
sys.path.insert(0, HERE)
sys.path.insert(0, os.path.join(VERIF, "checks"))
CLAIMS = {}
for f in sorted(os.listdir(os.path.join(VERIF, "checks"))):
    if f.endswith(".py") and not f.startswith("_"):
        try:
            mod = importlib.import_module(f[:-3])
        except Exception as ex:   # a family under construction must not break the manifest
            print("skip", f, ex)
            continue
        if getattr(mod, "READY", False):
            CLAIMS.update(getattr(mod, "CLAIMS", {}))

NA = {
 "C10": "IEEE-754 rounding at each of 1e9 nanosecond offsets: no state or case analysis for TLC to explore, TLC integers are 32-bit; a TLA+ spec could only restate the contract (see DESIGN.md section 8).",
}

def main():
    src = []
    try:
        out = subprocess.run(["git", "-C", "/repo", "log", "--format=%H %s"], stdout=subprocess.PIPE, text=True).stdout
        src = [l.split()[0] for l in out.splitlines() if l.split(" ", 1)[1].startswith("verifhook")]
    except Exception:
        pass
    checks = []
    for pid in ALL:
        if pid not in CLAIMS:
            continue
        c = CLAIMS[pid]
        checks.append({
            "property_id": pid,
            "quick_cmd": "python3 tools/check.py %s --tier quick" % pid,
            "thorough_cmd": "python3 tools/check.py %s --tier thorough" % pid,
            "evidence_file": "/verif/evidence/%s.json" % pid,
            "replay_cmd_template": "python3 tools/check.py --replay {path}",
            "engine": "tlc+replay",
            "level_claimed": {"category": c.get("category", "model_checking"), "text": c["text"], "design_ref": "DESIGN.md section 6 (%s)" % pid},
            "level_note": c["note"],
            "technique": c["technique"],
        })
    na = [{"property_id": p, "reason": NA.get(p, "check not built yet in this round (planned: see DESIGN.md section 11)")} for p in ALL if p not in CLAIMS]
    m = {
        "version": 1,
        "setup_cmd": "python3 tools/check.py --setup",
        "hooks": {"guard": "verif", "enable": "go build -tags verif (harness module /verif/harness with replace => /repo)",
                  "baseline_off_cmd": "sh tools/baseline_off.sh", "source_commits": src, "add_only": True},
        "engines": [
            {"name": "tlc-model-check", "path": "spec/", "serves_properties": sorted(CLAIMS), "kind_free_text": "TLC exhaustive / simulation runs of the TLA+ modules"},
            {"name": "code-to-spec-trace-validation", "path": "spec/Wal_Trace.tla, spec/Writers_Trace.tla, tools/walrec.py, harness/drv/trace.go",
             "serves_properties": [p for p in ["C01", "C02", "C03", "C04", "C05", "C07", "C34", "C35"] if p in CLAIMS],
             "kind_free_text": "recorded executions of the real code (strace system-call logs with marker events; hook-point logs of free-running goroutines) checked as behaviours of the TLA+ trace specifications by TLC"},
            {"name": "spec-to-code-replay", "path": "harness/ + checks/", "serves_properties": sorted(CLAIMS), "kind_free_text": "TLC behaviours concretised and executed against the real code by the Go driver mktsverif"},
        ],
        "checks": checks,
        "not_applicable": na,
        "notes": "exit 2 (UNDECIDED) means the machinery could not decide; it is never a violation. Known findings: known_findings.json.",
    }
    json.dump(m, open(os.path.join(VERIF, "MANIFEST.json"), "w"), indent=1)
    print("claimed:", len(checks), "not claimed:", len(na))

if __name__ == "__main__":
    main()
