#!/usr/bin/env python3
"""Rewrites the per-property as-built table of DESIGN.md (between the PROPTABLE markers) from the check families, the
known-findings files, the seeded changes and the committed evidence."""
import glob, importlib, json, os, re, sys
V = os.path.dirname(os.path.dirname(os.path.abspath(__file__)))
sys.path.insert(0, os.path.join(V, "tools")); sys.path.insert(0, os.path.join(V, "checks"))
fam = {}
for f in sorted(os.listdir(os.path.join(V, "checks"))):
    if f.endswith(".py") and not f.startswith("_"):
        t = open(os.path.join(V, "checks", f)).read()
        m = re.search(r"^PROPS\s*=\s*(\[.*?\])", t, re.M)
        if m:
            for p in json.loads(m.group(1).replace("'", '"')):
                fam[p] = (f, sorted(set(re.findall(r'run_tlc\("(\w+)"', t))))
known, fixed = {}, {}
for kf in [os.path.join(V, "known_findings.json")] + sorted(glob.glob(os.path.join(V, "known_findings.d", "*.json"))):
    k = json.load(open(kf))
    for x in k.get("findings", []):
        if x.get("status") == "open":
            known.setdefault(x["property"], []).append(x["id"])
    if kf.endswith("known_findings.json"):
        for line in k.get("fixed", []):
            m = re.match(r"fixed: property=(C\d+) (\w+)", line)
            if m:
                fixed.setdefault(m.group(1), []).append(m.group(2))
seeds = {}
for d in sorted(glob.glob(os.path.join(V, "seeded", "*"))):
    m = json.load(open(os.path.join(d, "meta.json")))
    for p in m["caught_by"]:
        seeds.setdefault(p, []).append(m["id"])
rows = []
for i in range(1, 36):
    p = "C%02d" % i
    if p not in fam:
        rows.append("| %s | not applicable (section 8) | | | | | |" % p)
        continue
    f, mods = fam[p]
    ev = {}
    try:
        ev = json.load(open(os.path.join(V, "evidence", p + ".json")))
    except Exception:
        pass
    c = ev.get("coverage", {})
    rows.append("| %s | `checks/%s` | %s | %s / %s / %s | %s | %s | %s |" % (
        p, f, ", ".join("`%s`" % m for m in mods), c.get("states", "-"), c.get("transitions", "-"), c.get("traces_validated_against_impl", "-"),
        ", ".join(sorted(set(known.get(p, [])))) or "-", ", ".join(sorted(set(fixed.get(p, [])))) or "-", ", ".join(sorted(set(seeds.get(p, [])))) or "-"))
tab = ("| property | check family | TLA+ modules run by TLC | quick tier: distinct states / transitions / behaviours or traces run on the real code (committed evidence) | open known findings | repaired (`fix:` commits) | seeded changes it reports |\n"
       "|---|---|---|---|---|---|---|\n" + "\n".join(rows) + "\n")
p = os.path.join(V, "DESIGN.md")
s = open(p).read()
a, b = "<!-- PROPTABLE BEGIN -->\n", "<!-- PROPTABLE END -->\n"
s = s[:s.index(a) + len(a)] + tab + s[s.index(b):]
open(p, "w").write(s)
print(len(rows), "rows")
