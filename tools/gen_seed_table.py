#!/usr/bin/env python3
"""Rewrites the seeded-changes table of DESIGN.md (between the SEEDTABLE markers) from seeded/*/meta.json."""
import glob, json, os, re
V = os.path.dirname(os.path.dirname(os.path.abspath(__file__)))
rows = []
for d in sorted(glob.glob(os.path.join(V, "seeded", "*"))):
    m = json.load(open(os.path.join(d, "meta.json")))
    b = re.sub(r"/tmp/seed/wt_C\d+[bx]?/", "", (m["breaks"] or "").replace("\n", " ").replace("|", "/"))
    if len(b) > 230:
        b = b[:227] + "..."
    rows.append("| `%s` | %s | %s | %s | %s |" % (m["id"], m["property"], b, ", ".join(m["caught_by"]) or "-", (m.get("note") or "").replace("|", "/")))
tab = "| seed | property | change | caught by (quick tier) | what had to be strengthened |\n|---|---|---|---|---|\n" + "\n".join(rows) + "\n"
p = os.path.join(V, "DESIGN.md")
s = open(p).read()
a, b = "<!-- SEEDTABLE BEGIN -->\n", "<!-- SEEDTABLE END -->\n"
s = s[:s.index(a) + len(a)] + tab + s[s.index(b):]
open(p, "w").write(s)
print(len(rows), "rows")
